// C05 harness: the real thing, end to end.
//
// Every history starts a real c2.Server + Listener on TCP loopback and 2-3 real client Sessions
// (distinct device ids, short sleep), registers an echo Tasker (task.Mappings[0xE5]) whose
// result is a deterministic function of (executing client, payload) and drives a random
// operator history drawn from the one PRNG: Task with payload sizes from the fragmentation
// grid, SetSleep / SetJitter / SetChannel(true|false) on the server-side Session, bursts of up
// to ~40 outstanding jobs, three profile stacks (none, XOR+zlib wrapper, Base64 transform).
// Client-side re-keys happen on their own (1/110 per idle wake-up) and are counted.
//
// Oracle (exactly the property): every Job returned by Task completes (Wait returns, Status
// completed, at most one Update call observes the finished Job and its Result never changes
// afterwards), the Result payload is the echo of ITS payload by ITS client, and the execution
// log shows each job exactly once on the addressed client and on no other.
//
// The abstract trace (operator steps with the accepted flag, observed completions in order,
// key changes, and per client the accepted results and the execution log) is emitted as a Coq
// case: Model/Exchange.v runs the same operator history through the abstract machine (draining
// where the implementation was seen to have completed a job) and compares the outcome.
//
// The histories run in a child process (a run-time panic in a library goroutine has to be
// observed, not suffered), a few of them in parallel.
package main

import (
	"bufio"
	"context"
	"encoding/binary"
	"encoding/json"
	"flag"
	"fmt"
	"hash/crc32"
	"os"
	"os/exec"
	"sort"
	"strconv"
	"strings"
	"sync"
	"sync/atomic"
	"time"

	"github.com/PurpleSec/logx"
	"github.com/iDigitalFlame/xmt/c2"
	"github.com/iDigitalFlame/xmt/c2/cfg"
	"github.com/iDigitalFlame/xmt/c2/task"
	"github.com/iDigitalFlame/xmt/c2/transform"
	"github.com/iDigitalFlame/xmt/c2/wrapper"
	"github.com/iDigitalFlame/xmt/com"
	"github.com/iDigitalFlame/xmt/com/limits"
	"github.com/iDigitalFlame/xmt/data"
	"github.com/iDigitalFlame/xmt/device"
	"github.com/iDigitalFlame/xmt/device/local"

	"verifharness/vh"
)

const (
	failID       = 0xE7
	statusError  = 4 // c2.StatusError
	gatedID      = 0xE6
	echoID       = 0xE5
	statusDone   = 3 // c2.StatusCompleted
	stChannel    = 1 << 8
	waitDeadline = 25 * time.Second
)

// ---------------------------------------------------------------- history (= replay input)

type Op struct {
	Kind    string `json:"kind"` // task | sleep | jitter | chan | pause
	C       int    `json:"c"`
	Size    int    `json:"size,omitempty"`
	Seed    uint32 `json:"seed,omitempty"`
	On      bool   `json:"on,omitempty"`
	Val     int    `json:"val,omitempty"` // sleep ms | jitter % | pause ms
	DelayUs int    `json:"delay_us,omitempty"`
}

type Hist struct {
	K        int    `json:"k"`
	Class    string `json:"class"`
	NCl      int    `json:"clients"`
	Profile  string `json:"profile"` // none | xorzlib | b64
	SleepMs  []int  `json:"sleep_ms"`
	MaxJobs  int    `json:"max_outstanding_jobs"`
	MaxSlots int    `json:"max_outstanding_slots"`
	Ops      []Op   `json:"ops"`
	Repeat   int    `json:"repeat,omitempty"`
	Hooks    string `json:"hooks,omitempty"`  // Session.Receive callbacks: "" | server | client | both
	Kind     string `json:"kind,omitempty"`   // "" (operator history) | "rekey-race"
	Rounds   int    `json:"rounds,omitempty"` // rekey-race
}

type failRec struct {
	What string `json:"what"`
	Key  string `json:"key"`
}

// Ev is one entry of the abstract trace.
type Ev struct {
	T   string `json:"t"` // task | chan | done | rekey
	C   int    `json:"c"`
	J   int    `json:"j,omitempty"`
	P   string `json:"p,omitempty"` // payload token (decimal)
	Acc bool   `json:"acc,omitempty"`
	On  bool   `json:"on,omitempty"`
}

type DoneObs struct {
	J int    `json:"j"`
	R string `json:"r"` // result token (decimal), derived from the bytes actually received
}

type HRes struct {
	K         int            `json:"k"`
	Fails     []failRec      `json:"fails"`
	Trace     []Ev           `json:"trace"`
	Done      [][]DoneObs    `json:"done"` // per client, in the order the results were accepted
	Exec      [][]int        `json:"exec"` // per client, job ids in execution order
	Stats     map[string]int `json:"stats"`
	Diag      []string       `json:"diag,omitempty"`
	Ms        int64          `json:"ms"`
	Panic     string         `json:"panic,omitempty"`
	Jobs      int            `json:"jobs"`
	Frag      int            `json:"fragmented_jobs"`
	Chan      int            `json:"channel_switches"`
	Rekeys    int            `json:"rekeys"`
	Transport int            `json:"transport_fault_jobs"` // jobs not judged: their session logged a transport error
	Retried   bool           `json:"retried"`
}

// ---------------------------------------------------------------- memory log (diagnostics only)

type logLine struct {
	t  time.Time
	lv byte // E W I D
	s  string
}

// memLog keeps what the c2 code logs about errors, warnings and channel start / end (the
// transport-fault and channel-teardown classification of the oracle reads it).
type memLog struct {
	mu    sync.Mutex
	lines []logLine
	t0    time.Time
}

func (m *memLog) add(lv byte, s string, v ...interface{}) {
	t := time.Now()
	m.mu.Lock()
	if len(m.lines) < 60000 {
		m.lines = append(m.lines, logLine{t, lv, clip(fmt.Sprintf(s, v...), 240)})
	}
	m.mu.Unlock()
}
func (m *memLog) chanLine(lv byte, s string, v ...interface{}) {
	if strings.Contains(s, "hannel") {
		m.add(lv, s, v...)
	}
}
func (m *memLog) all() []logLine {
	m.mu.Lock()
	l := append([]logLine(nil), m.lines...)
	m.mu.Unlock()
	sort.SliceStable(l, func(a, b int) bool { return l[a].t.Before(l[b].t) })
	return l
}

// snapshot: the last n error / warning lines (diagnostics in a replay file)
func (m *memLog) snapshot(n int) []string {
	var o []string
	for _, l := range m.all() {
		if l.lv == 'E' || l.lv == 'W' {
			o = append(o, fmt.Sprintf("%7.1fms %c %s", float64(l.t.Sub(m.t0).Microseconds())/1000, l.lv, l.s))
		}
	}
	if len(o) > n {
		o = o[len(o)-n:]
	}
	return o
}
func clip(s string, n int) string {
	if len(s) <= n {
		return s
	}
	return s[:n] + "…"
}
func (*memLog) SetLevel(_ logx.Level)                {}
func (*memLog) SetPrefix(_ string)                   {}
func (*memLog) SetPrintLevel(_ logx.Level)           {}
func (*memLog) Print(_ ...interface{})               {}
func (*memLog) Panic(_ ...interface{})               {}
func (*memLog) Println(_ ...interface{})             {}
func (*memLog) Panicln(_ ...interface{})             {}
func (m *memLog) Info(s string, v ...interface{})    { m.chanLine('I', s, v...) }
func (m *memLog) Error(s string, v ...interface{})   { m.add('E', s, v...) }
func (m *memLog) Fatal(s string, v ...interface{})   { m.add('E', s, v...) }
func (*memLog) Trace(_ string, _ ...interface{})     {}
func (m *memLog) Debug(s string, v ...interface{})   { m.chanLine('D', s, v...) }
func (*memLog) Printf(_ string, _ ...interface{})    {}
func (*memLog) Panicf(_ string, _ ...interface{})    {}
func (m *memLog) Warning(s string, v ...interface{}) { m.add('W', s, v...) }

// ---------------------------------------------------------------- what the log says about a lost job

// transportLine: an error the c2 code logged about the CONNECTION of an exchange (connect,
// read, write: refused, reset, deadline, EOF in the middle of a packet).  XMT drops the packets
// of an exchange whose connection fails; that is a fault history, outside C05's quantifier.
func transportLine(l logLine) bool {
	if l.lv != 'E' {
		return false
	}
	for _, k := range []string{"Error attempting to write Packet", "Error attempting to read Packet", "Error attempting to connect",
		"Error reading Packet", "Error writing Packet", "Error reading next wire Packet"} {
		if strings.Contains(l.s, k) {
			return true
		}
	}
	return false
}

// protocolLine: an error about the CONTENT of an exchange (parse, key, packing).  A peer that
// fails this way closes the connection, which the other end then logs as a transport error:
// such a transport error is not an environment fault.
func protocolLine(l logLine) bool {
	if l.lv != 'E' {
		return false
	}
	for _, k := range []string{"Error processing", "Error packing", "KeyPair", "Error reading a lower level", "malformed", "invalid Multi"} {
		if strings.Contains(l.s, k) {
			return true
		}
	}
	return false
}

func inChannelPath(l logLine) bool {
	return strings.Contains(l.s, ":C->S:") || strings.Contains(l.s, ":S->C:")
}

// transportFault: did either end of the session log a transport error (outside the channel
// loops, which tear connections down by design) between from and to, and no protocol error?
func transportFault(lines []logLine, tag string, from, to time.Time) (bool, string) {
	var first string
	for _, l := range lines {
		if l.t.Before(from) || l.t.After(to) || !strings.Contains(l.s, tag) {
			continue
		}
		if protocolLine(l) {
			return false, ""
		}
		if transportLine(l) && !inChannelPath(l) && first == "" {
			first = l.s
		}
	}
	return first != "", first
}

// chanEp is one channel of a session as the two ends logged it: start, first sign of its end,
// whether the client ever joined it.
type chanEp struct {
	start, end time.Time
	last       time.Time // last line about the end of this channel (a writer can still take and lose a packet until it has stopped)
	ended      bool
	clientIn   bool
	serverIn   bool
	line       string
}

func episodes(lines []logLine, tag string) []chanEp {
	var (
		eps    []chanEp
		client = "[" + tag + ":C->S:" // the client end logs "[ID:C->S:..", the server end "[name:ID:S->C:.."
	)
	for _, l := range lines {
		if !strings.Contains(l.s, tag) {
			continue
		}
		switch {
		case strings.Contains(l.s, "Started Channel"):
			if len(eps) == 0 || eps[len(eps)-1].ended {
				eps = append(eps, chanEp{start: l.t})
			}
			if strings.Contains(l.s, client) {
				eps[len(eps)-1].clientIn = true
			}
			if strings.Contains(l.s, ":S->C:") {
				eps[len(eps)-1].serverIn = true
			}
		case strings.Contains(l.s, "indicated channel close") || strings.Contains(l.s, "Breaking Channel") ||
			strings.Contains(l.s, "Closed Channel") || strings.Contains(l.s, "channel socket closed") || (l.lv == 'E' && inChannelPath(l)):
			if len(eps) == 0 {
				eps = append(eps, chanEp{start: l.t, clientIn: true, serverIn: true})
			}
			e := &eps[len(eps)-1]
			if !e.ended {
				e.ended, e.end, e.line = true, l.t, l.s
			}
			e.last = l.t
		}
	}
	return eps
}

// chanVerdict classifies a job that never completed on a session that was in channel mode, by
// the first channel that ended while the job was outstanding (the order of log lines of
// different goroutines within a millisecond means nothing, so the verdict looks for signatures
// in the lines around the end, not at which came first):
//
//	"chan"          the known defect: a packet in transit when a channel is torn down is lost.  The
//	                channel ended because the operator switched it off, because a read deadline
//	                of the channel expired (idle server, load), or by another connection-level end
//	"chan-start"    the server started a channel the client never joined (the reply did not carry
//	                the channel flag) and lost what its writer took
//	"chan-collapse" both ends were in the channel, nobody asked for its end and no deadline
//	                expired, yet the server's writer was told to stop
//	"chan-open"     no channel ended while the job was outstanding
func chanVerdict(lines []logLine, tag string, offs []time.Time, from, to time.Time) (string, string) {
	// any error of either end of the session while the job was outstanding (channel loops and
	// plain exchanges alike), and any sign of a channel end or of a new channel
	var errLine, endLine string
	for _, l := range lines {
		if !strings.Contains(l.s, tag) || l.t.Before(from.Add(-5*time.Millisecond)) || l.t.After(to) {
			continue
		}
		if l.lv == 'E' && errLine == "" {
			errLine = l.s
		}
		if endLine == "" && (strings.Contains(l.s, "indicated channel close") || strings.Contains(l.s, "Breaking Channel") ||
			strings.Contains(l.s, "Closed Channel") || strings.Contains(l.s, "Started Channel")) {
			endLine = l.s
		}
	}
	for _, e := range episodes(lines, tag) {
		if e.ended && e.last.Before(from.Add(-5*time.Millisecond)) {
			continue
		}
		if !e.ended {
			// a channel that is still open: a violation only if NOTHING was logged about the
			// connections of this session while the job was outstanding
			if errLine != "" {
				return "chan", errLine
			}
			if endLine != "" {
				return "chan", endLine
			}
			return "chan-open", ""
		}
		// a channel only one end entered is never a regular teardown, whatever the operator did
		if !e.clientIn {
			return "chan-start", e.line
		}
		if !e.serverIn {
			return "chan-client-only", e.line
		}
		for _, t := range offs {
			if !t.Before(e.start.Add(-50*time.Millisecond)) && !t.After(e.end.Add(5*time.Millisecond)) {
				return "chan", e.line
			}
		}
		// The server's writer is told to stop (pick returns nil on a wake token) by conn.stop of
		// its own reader, i.e. AFTER the reader logged its end, or after the operator's switch.
		// If that line is the earliest sign of the end (causally first: the connection is only
		// closed after it is logged) and no end of the session logged an error between the start
		// of this channel and that line, nobody had a reason to end this channel.
		if strings.Contains(e.line, ":S->C:W] Session indicated channel close") {
			clean := true
			for _, l := range lines {
				if l.lv == 'E' && strings.Contains(l.s, tag) && !l.t.Before(e.start.Add(-5*time.Millisecond)) && l.t.Before(e.end) {
					clean = false
				}
			}
			if clean {
				return "chan-collapse", e.line
			}
		}
		return "chan", e.line
	}
	return "none", ""
}

// untracked: did the server log the result of this job as "un-tracked" around the time Task
// returned?  (Session.Task queues the packet before it registers the Job.)
func untracked(lines []logLine, tag string, id uint16, at time.Time) bool {
	k := fmt.Sprintf("un-tracked Job %d!", id)
	for _, l := range lines {
		if l.lv == 'W' && strings.Contains(l.s, tag) && strings.Contains(l.s, k) && l.t.After(at.Add(-5*time.Millisecond)) && l.t.Before(at.Add(200*time.Millisecond)) {
			return true
		}
	}
	return false
}

// ---------------------------------------------------------------- echo tasker

type cliRec struct {
	h    *hrun
	idx  int
	id   device.ID
	sess *c2.Session // client side
	ss   *c2.Session // server side

	mu   sync.Mutex
	exec []execRec

	started chan struct{} // gated tasker: a task has reached the handler
	release chan struct{} // gated tasker: let it finish
}

type execRec struct {
	job  uint16
	ptok uint64
	dev  device.ID // Device of the result packet the session handed to the tasker
}

type ctxKey struct{}

var (
	regMu sync.RWMutex
	reg   = map[device.ID]*cliRec{}
	// executions the tasker could not attribute to any client of a live history
	strayExec int32
)

func payloadTok(b []byte) uint64 {
	return uint64(len(b))<<32 | uint64(crc32.ChecksumIEEE(b))
}

// expected result of the echo task: id ++ payload ++ crc32(id ++ payload)
func echoResult(id device.ID, p []byte) []byte {
	o := make([]byte, 0, len(id)+len(p)+4)
	o = append(o, id[:]...)
	o = append(o, p...)
	var c [4]byte
	binary.BigEndian.PutUint32(c[:], crc32.ChecksumIEEE(o))
	return append(o, c[:]...)
}

func echoTasker(x context.Context, r data.Reader, w data.Writer) error {
	var (
		n, _ = r.(*com.Packet)
		o, _ = w.(*com.Packet)
	)
	if n == nil || o == nil {
		atomic.AddInt32(&strayExec, 1)
		return nil
	}
	c, _ := x.Value(ctxKey{}).(*cliRec)
	if c == nil {
		regMu.RLock()
		c = reg[o.Device]
		regMu.RUnlock()
	}
	if c == nil {
		atomic.AddInt32(&strayExec, 1)
		return nil
	}
	p := n.Payload() // NOT data.ReadAll: an empty Packet never returns EOF
	c.mu.Lock()
	c.exec = append(c.exec, execRec{job: n.Job, ptok: payloadTok(p), dev: o.Device})
	c.mu.Unlock()
	// the result names the client that RAN the task (c.id), whatever the packet says
	_, err := w.Write(echoResult(c.id, p))
	return err
}

// ---------------------------------------------------------------- one history on the real code

type jobRec struct {
	c       int
	id      uint16
	kind    string // echo | sleep | jitter
	size    int
	val     int64
	ptok    uint64
	payload []byte
	job     *c2.Job
	nfrag   int

	tTask    time.Time
	inChan   bool          // the session was (asked to be) in channel mode at some time while the job was outstanding
	lostCh   chan struct{} // closed by the monitor when nothing is in flight any more but the job is still tracked
	isLost   bool
	updDone  int32 // Update calls that saw the finished Job
	updAll   int32
	seq      int64 // completion order (Update), 0 = not seen by Update
	waited   int32
	resAtEnd *com.Packet
	resFirst *com.Packet
}

type hrun struct {
	h      Hist
	log    *memLog
	mu     sync.Mutex // trace + accounting
	cond   *sync.Cond
	trace  []Ev
	jobs   []*jobRec
	outJ   []int // outstanding jobs per client
	outS   []int // outstanding slots per client
	seq    int64
	fails  []failRec
	done   [][]*jobRec // per client, in waiter order
	lastEv []time.Time // per client: last Task / completion
}

// markChan (r.mu held): every outstanding job of client c lived through channel mode
func markChan(r *hrun, c int) {
	for _, j := range r.jobs {
		if j.c == c && !j.inChan && atomic.LoadInt32(&j.waited) == 0 {
			j.inChan = true
		}
	}
}

func (r *hrun) fail(what, key string) {
	r.mu.Lock()
	r.fails = append(r.fails, failRec{what, key})
	r.mu.Unlock()
}

func genPayload(size int, seed uint32, serial uint32) []byte {
	b := make([]byte, size)
	x := uint64(seed)*0x9E3779B97F4A7C15 + 0xD1B54A32D192ED03
	for i := 0; i < size; i += 8 {
		x ^= x << 13
		x ^= x >> 7
		x ^= x << 17
		v := x
		if seed&3 == 0 { // a quarter of the payloads compress well
			v = x & 0x0101010101010101
		}
		for k := 0; k < 8 && i+k < size; k++ {
			b[i+k] = byte(v >> (8 * k))
		}
	}
	if size >= 4 {
		binary.BigEndian.PutUint32(b, serial)
	}
	return b
}

func nfrags(size int) int {
	if limits.Frag <= 0 {
		return 1
	}
	return (size+com.PacketHeaderSize+9+40)/limits.Frag + 1
}

func profile(name string, listen bool, host string, sleep time.Duration) cfg.Static {
	p := cfg.Static{H: host, S: sleep, J: 0}
	if listen {
		p.L = com.TCP
	} else {
		p.C = com.TCP
	}
	switch name {
	case "xorzlib":
		p.W = cfg.MultiWrapper{wrapper.NewXOR([]byte("c05-xor-key-0123456789")), wrapper.Zlib}
	case "b64":
		p.T = transform.B64Shift(7)
	}
	return p
}

var connectMu sync.Mutex

func newID(seed uint64) device.ID {
	var (
		id device.ID
		r  = vh.NewRand(seed)
	)
	copy(id[:], r.Bytes(len(id)))
	id[0] |= 1
	return id
}

func waitCh(ch <-chan struct{}, d time.Duration) bool {
	select {
	case <-ch:
		return true
	case <-time.After(d):
		return false
	}
}

// shape of the history around a job: profile stack, fragmentation, channel mode during its life
func shape(h Hist, j *jobRec, chanKind string) string {
	s := ""
	if j.inChan {
		s += "/" + chanKind
	}
	if j.nfrag > 1 {
		s += "/frag"
	}
	if h.Profile != "none" {
		s += "/" + h.Profile
	}
	return s
}

// failTasker fails: at once (shape 0), after writing a string (1), after writing bytes that do not
// start with a string header (2), after writing a number and a string (3).  The shape is the first
// payload byte.  The error names the payload and the client that ran the task: that is "the
// result that client produced for that job" (Job.Error), whatever was written before.
func failTasker(x context.Context, r data.Reader, w data.Writer) error {
	var (
		n, _ = r.(*com.Packet)
		o, _ = w.(*com.Packet)
		c, _ = x.Value(ctxKey{}).(*cliRec)
	)
	if n == nil || o == nil || c == nil {
		atomic.AddInt32(&strayExec, 1)
		return nil
	}
	p := n.Payload()
	t := payloadTok(p)
	c.mu.Lock()
	c.exec = append(c.exec, execRec{job: n.Job, ptok: t, dev: o.Device})
	c.mu.Unlock()
	shape := byte(0)
	if len(p) > 0 {
		shape = p[0] & 3
	}
	switch shape {
	case 1:
		w.WriteString(fmt.Sprintf("partial output of %d", t))
	case 2:
		w.Write([]byte{0xC8, 0xFF, 0xFE, 0x00, 0x10, 0x80, 0x7F, 0xC8, 0xC8, 0xC8, 0xC8, 0xC8, 0xC8, 0xC8, 0xC8, 0xC8})
	case 3:
		w.WriteUint32(0xDEADBEEF)
		w.WriteString("and a string")
	}
	return fmt.Errorf("boom:%d:%d", t, c.idx)
}

// mvIDs: the tasks the default client mux answers itself without touching the host
var mvIDs = []uint8{task.MvRefresh, task.MvPwd, task.MvCheckDebug, task.MvList, task.MvMounts, task.MvProcList, task.MvWhoami}

// gatedTasker is the echo tasker that reports its start and finishes when released.
func gatedTasker(x context.Context, r data.Reader, w data.Writer) error {
	var (
		n, _ = r.(*com.Packet)
		o, _ = w.(*com.Packet)
		c, _ = x.Value(ctxKey{}).(*cliRec)
	)
	if n == nil || o == nil || c == nil {
		atomic.AddInt32(&strayExec, 1)
		return nil
	}
	p := n.Payload()
	c.mu.Lock()
	c.exec = append(c.exec, execRec{job: n.Job, ptok: payloadTok(p), dev: o.Device})
	c.mu.Unlock()
	c.started <- struct{}{}
	<-c.release
	_, err := w.Write(echoResult(c.id, p))
	return err
}

// runRace is the targeted scenario for "a re-key announcement must travel alone": one client
// that only polls when woken (sleep of hours, so one idle poll in 50 draws a re-key); one gated
// task is outstanding per round and its result is released a few hundred microseconds after an
// idle poll was started, so that it can be queued while the client generates the new KeyPair
// (between pick()'s and next()'s look at the send queue).  Oracle as everywhere: every Job
// completes once with the echo of its own payload by its own client, executed once.
func runRace(h Hist, r *hrun, idSeed uint64, res *HRes) {
	h.NCl, h.SleepMs = 1, []int{0}
	_, clients, cleanup := startWorld(h, r, idSeed, []time.Duration{3 * time.Hour})
	defer cleanup()
	var (
		c    = clients[0]
		last = c2.VerifC05KeySum(c.sess)
		end  = time.Now().Add(time.Duration(h.Rounds/125) * time.Second) // 20 s quick, 96 s thorough
		fail = func(what, key string) {
			r.fails = append(r.fails, failRec{what, key})
		}
	)
	defer func() {
		// let blocked taskers go
		for {
			select {
			case c.release <- struct{}{}:
				continue
			case <-time.After(20 * time.Millisecond):
			}
			break
		}
		res.Fails, res.Trace = r.fails, nil
		if len(r.fails) > 0 {
			res.Diag = r.log.snapshot(40)
		}
	}()
	for i := 1; i <= h.Rounds && time.Now().Before(end); i++ {
		if k := c2.VerifC05KeySum(c.sess); k != last {
			last = k
			res.Rekeys++
		}
		b := genPayload(64, uint32(i)|1, uint32(i))
		n := &com.Packet{ID: gatedID, Device: c.ss.ID}
		n.Write(b)
		j, err := c.ss.Task(n)
		if err != nil {
			fail(fmt.Sprintf("round %d: Task refused: %v", i, err), "rekey-race/task-refused")
			return
		}
		res.Jobs++
		d := make(chan struct{})
		go func() { j.Wait(); close(d) }()
		// 1: poll until the client has the task and its handler is running
		run := false
		for w := time.Now().Add(8 * time.Second); !run; {
			c.sess.Wake()
			select {
			case <-c.started:
				run = true
			case <-d:
				fail(fmt.Sprintf("round %d (%d re-keys so far): the Job finished without its task running on the client: status %d, error %q", i, res.Rekeys, j.Status, j.Error), "rekey-race/not-executed")
				return
			case <-time.After(2 * time.Millisecond):
				if time.Now().After(w) {
					fail(fmt.Sprintf("round %d (%d re-keys so far): the task never reached the client handler (status %d)", i, res.Rekeys, j.Status), "rekey-race/incomplete")
					return
				}
			}
		}
		time.Sleep(300 * time.Microsecond)
		// 2: start an idle poll; the result arrives a little later
		c.sess.Wake()
		time.Sleep(time.Duration(50+(i*37)%600) * time.Microsecond)
		c.release <- struct{}{}
		// 3: poll until the result is in
		for w, ok := time.Now().Add(8*time.Second), false; !ok; {
			select {
			case <-d:
				ok = true
			case <-time.After(2 * time.Millisecond):
				if c.sess.Wake(); time.Now().After(w) {
					fail(fmt.Sprintf("round %d (%d re-keys so far): the Job never completed (status %d)", i, res.Rekeys, j.Status), "rekey-race/incomplete")
					return
				}
			}
		}
		if j.Status != statusDone || j.Result == nil {
			fail(fmt.Sprintf("round %d (%d re-keys so far): Job status %d, error %q", i, res.Rekeys, j.Status, j.Error), "rekey-race/status")
			return
		}
		j.Result.Seek(0, 0)
		if string(j.Result.Payload()) != string(echoResult(c.id, b)) {
			fail(fmt.Sprintf("round %d (%d re-keys so far): the result is not the echo of its own payload by its own client", i, res.Rekeys), "rekey-race/wrong-result")
			return
		}
	}
	c.mu.Lock()
	ne := len(c.exec)
	c.mu.Unlock()
	if ne != res.Jobs {
		fail(fmt.Sprintf("%d jobs completed, %d executions on the client", res.Jobs, ne), "rekey-race/exec-count")
	}
	res.Stats["race_rounds"] = res.Jobs
}

// startWorld starts a fresh real Server + Listener and the client Sessions of a history.
func startWorld(h Hist, r *hrun, idSeed uint64, sleep []time.Duration) (*c2.Server, []*cliRec, func()) {
	srv := c2.NewServer(r.log)
	srv.Keys.Fill() // otherwise generated asynchronously by the server loop
	l, err := srv.Listen("c05", "127.0.0.1:0", profile(h.Profile, true, "", 0))
	if err != nil {
		panic("listen: " + err.Error())
	}
	var (
		addr    = l.Address()
		clients = make([]*cliRec, h.NCl)
		cancels []context.CancelFunc
	)
	cleanup := func() {
		// close everything, never wait for ever
		for _, c := range clients {
			if c != nil && c.sess != nil {
				s := c.sess
				d := make(chan struct{})
				go func() { s.Close(); close(d) }()
				waitCh(d, 3*time.Second)
			}
		}
		for _, f := range cancels {
			f()
		}
		d := make(chan struct{})
		go func() { srv.Close(); close(d) }()
		waitCh(d, 3*time.Second)
		regMu.Lock()
		for _, c := range clients {
			if c != nil {
				delete(reg, c.id)
			}
		}
		regMu.Unlock()
	}
	for i := range clients {
		c := &cliRec{h: r, idx: i, id: newID(idSeed*16 + uint64(i) + 1), started: make(chan struct{}, 8), release: make(chan struct{})}
		clients[i] = c
		regMu.Lock()
		reg[c.id] = c
		regMu.Unlock()
		ctx, cancel := context.WithCancel(context.WithValue(context.Background(), ctxKey{}, c))
		cancels = append(cancels, cancel)
		d := time.Duration(h.SleepMs[i]) * time.Millisecond
		if sleep != nil {
			d = sleep[i]
		}
		connectMu.Lock()
		oldU, oldD := local.UUID, local.Device.ID
		local.UUID, local.Device.ID = c.id, c.id
		c.sess, err = c2.ConnectContext(ctx, r.log, profile(h.Profile, false, addr, d))
		local.UUID, local.Device.ID = oldU, oldD
		connectMu.Unlock()
		if err != nil {
			cleanup()
			panic("connect: " + err.Error())
		}
		for k := 0; k < 3000 && c.ss == nil; k++ {
			if c.ss = srv.Session(c.id); c.ss == nil {
				time.Sleep(time.Millisecond)
			}
		}
		if c.ss == nil {
			cleanup()
			panic("the server never listed the session")
		}
	}
	return srv, clients, cleanup
}

func runHist(h Hist, idSeed uint64) (res HRes) {
	t0 := time.Now()
	res.K, res.Stats = h.K, map[string]int{}
	r := &hrun{h: h, log: &memLog{t0: t0}, outJ: make([]int, h.NCl), outS: make([]int, h.NCl), done: make([][]*jobRec, h.NCl), lastEv: make([]time.Time, h.NCl)}
	r.cond = sync.NewCond(&r.mu)
	defer func() {
		if e := recover(); e != nil {
			res.Panic = fmt.Sprint(e)
			res.Fails = append(res.Fails, failRec{"the harness goroutine driving the history panicked: " + res.Panic, "panic"})
		}
		res.Ms = time.Since(t0).Milliseconds()
	}()
	if h.Kind == "rekey-race" {
		runRace(h, r, idSeed, &res)
		return res
	}
	srv, clients, cleanup := startWorld(h, r, idSeed, nil)
	defer cleanup()
	// the exported callbacks only count: the property must hold whether they are set or not
	var hookCalls int32
	srv.New = func(*c2.Session) { atomic.AddInt32(&hookCalls, 1) }
	srv.Shutdown = func(*c2.Session) { atomic.AddInt32(&hookCalls, 1) }
	srv.Oneshot = func(*com.Packet) { atomic.AddInt32(&hookCalls, 1) }
	for _, c := range clients {
		c.sess.Shutdown = func(*c2.Session) { atomic.AddInt32(&hookCalls, 1) }
		if h.Hooks == "server" || h.Hooks == "both" {
			c.ss.Receive = func(*c2.Session, *com.Packet) { atomic.AddInt32(&hookCalls, 1) }
		}
		if h.Hooks == "client" || h.Hooks == "both" {
			c.sess.Receive = func(*c2.Session, *com.Packet) { atomic.AddInt32(&hookCalls, 1) }
		}
	}
	defer func() { res.Stats["hook_calls"] = int(atomic.LoadInt32(&hookCalls)) }()
	var (
		keys0    = make([]uint32, h.NCl)
		chanUsed = make([]bool, h.NCl)
		chanOn   = make([]bool, h.NCl)
		offs     = make([][]time.Time, h.NCl) // SetChannel(false) calls
		chanSeen = make([]bool, h.NCl)
		serial   uint32
		wg       sync.WaitGroup
		stop     = make(chan struct{})
		pollWg   sync.WaitGroup
	)
	for i, c := range clients {
		keys0[i] = c2.VerifC05KeySum(c.sess)
	}
	// poller: key changes (re-keys) and whether channel mode was really reached
	pollWg.Add(1)
	go func() {
		defer pollWg.Done()
		last := append([]uint32(nil), keys0...)
		for {
			select {
			case <-stop:
				return
			case <-time.After(2 * time.Millisecond):
			}
			for i, c := range clients {
				if k := c2.VerifC05KeySum(c.sess); k != last[i] {
					last[i] = k
					r.mu.Lock()
					r.trace = append(r.trace, Ev{T: "rekey", C: i})
					res.Rekeys++
					r.mu.Unlock()
				}
				sc, cc := c2.VerifC05State(c.ss)&stChannel != 0, c2.VerifC05State(c.sess)&stChannel != 0
				if sc && cc {
					chanSeen[i] = true
				}
				if sc || cc {
					r.mu.Lock()
					markChan(r, i)
					r.mu.Unlock()
				}
			}
		}
	}()
	// monitor: a session with tracked jobs but nothing queued on either end for `quiet` has lost them
	quiet := 2500 * time.Millisecond
	if h.Profile != "none" {
		quiet = 5 * time.Second
	}
	pollWg.Add(1)
	go func() {
		defer pollWg.Done()
		since := make([]time.Time, h.NCl)
		for i := range since {
			since[i] = time.Now()
		}
		for {
			select {
			case <-stop:
				return
			case <-time.After(25 * time.Millisecond):
			}
			for i, c := range clients {
				q, pk, _ := c2.VerifC05Queue(c.ss)
				cq, cpk, _ := c2.VerifC05Queue(c.sess)
				r.mu.Lock()
				last := since[i]
				if r.lastEv[i].After(last) {
					last = r.lastEv[i]
				}
				if q > 0 || pk || cq > 0 || cpk || r.outJ[i] == 0 {
					since[i] = time.Now() // last time something was queued (or nothing was outstanding)
				} else if time.Since(last) >= quiet {
					for _, j := range r.jobs {
						if j.c == i && !j.isLost && atomic.LoadInt32(&j.waited) == 0 {
							j.isLost = true
							close(j.lostCh)
						}
					}
					since[i] = time.Now()
				}
				r.mu.Unlock()
			}
		}
	}()
	giveUp := false
	for _, op := range h.Ops {
		if giveUp {
			break
		}
		if op.DelayUs > 0 {
			time.Sleep(time.Duration(op.DelayUs) * time.Microsecond)
		}
		c := clients[op.C]
		switch op.Kind {
		case "pause":
			time.Sleep(time.Duration(op.Val) * time.Millisecond)
		case "chan", "cchan":
			r.mu.Lock()
			if op.Kind == "chan" {
				c.ss.SetChannel(op.On)
				r.trace = append(r.trace, Ev{T: "chan", C: op.C, On: op.On})
			} else {
				// the switch made on the CLIENT Session (the flag packet travels in its queue;
				// no effect on jobs in the model: like KeepAlive)
				c.sess.SetChannel(op.On)
			}
			chanOn[op.C] = op.On
			if !op.On {
				offs[op.C] = append(offs[op.C], time.Now())
			}
			if op.On {
				chanUsed[op.C] = true
				markChan(r, op.C)
			}
			res.Chan++
			r.mu.Unlock()
		case "task", "sleep", "jitter", "fail", "mv":
			j := &jobRec{c: op.C, kind: "echo", size: op.Size, nfrag: 1, lostCh: make(chan struct{})}
			if op.Kind == "fail" {
				serial++
				if op.Size < 1 {
					op.Size, j.size = 1, 1
				}
				j.kind, j.payload = "fail", genPayload(op.Size, op.Seed, serial)
				j.payload[0] = byte(op.Val & 3)
				j.ptok, j.nfrag = payloadTok(j.payload), nfrags(op.Size)
			} else if op.Kind != "task" {
				j.kind, j.val = op.Kind, int64(op.Val)
			} else {
				serial++
				j.payload = genPayload(op.Size, op.Seed, serial)
				j.ptok = payloadTok(j.payload)
				j.nfrag = nfrags(op.Size)
			}
			// the property's side condition: stay within the queue capacity
			r.mu.Lock()
			end := time.Now().Add(waitDeadline)
			for (r.outJ[op.C]+1 > h.MaxJobs || r.outS[op.C]+j.nfrag > h.MaxSlots) && r.outJ[op.C] > 0 && time.Now().Before(end) {
				waitCond(r.cond, 50*time.Millisecond)
			}
			if (r.outJ[op.C]+1 > h.MaxJobs || r.outS[op.C]+j.nfrag > h.MaxSlots) && r.outJ[op.C] > 0 {
				r.mu.Unlock()
				giveUp = true // outstanding jobs never completed: reported below
				break
			}
			var (
				job *c2.Job
				err error
			)
			// before the call: under load the packet can be sent, and lost in a channel end,
			// before Task has even returned
			j.tTask = time.Now()
			switch op.Kind {
			case "task":
				n := &com.Packet{ID: echoID, Device: c.ss.ID}
				n.Write(j.payload)
				job, err = c.ss.Task(n)
			case "fail":
				n := &com.Packet{ID: failID, Device: c.ss.ID}
				n.Write(j.payload)
				job, err = c.ss.Task(n)
			case "mv":
				n := &com.Packet{ID: uint8(op.Val), Device: c.ss.ID}
				if uint8(op.Val) == task.MvList {
					n.WriteString(".")
				}
				job, err = c.ss.Task(n)
				j.ptok = 1<<62 | 1<<60 | uint64(op.Val)
			case "sleep":
				job, err = c.ss.SetSleep(time.Duration(op.Val) * time.Millisecond)
				j.ptok = 1<<62 | uint64(time.Duration(op.Val)*time.Millisecond)
			case "jitter":
				job, err = c.ss.SetJitter(op.Val)
				j.ptok = 1<<62 | 1<<61 | uint64(op.Val)
			}
			if err != nil || job == nil {
				r.trace = append(r.trace, Ev{T: "task", C: op.C, J: 0, P: strconv.FormatUint(j.ptok, 10), Acc: false})
				r.fails = append(r.fails, failRec{fmt.Sprintf("Task refused (%v) with %d outstanding jobs / %d slots on the session (capacity 128)", err, r.outJ[op.C], r.outS[op.C]),
					"task-refused/" + h.Profile})
				r.mu.Unlock()
				break
			}
			j.job, j.id = job, job.ID
			job.Update = func(x *c2.Job) {
				atomic.AddInt32(&j.updAll, 1)
				if x.IsDone() {
					if atomic.AddInt32(&j.updDone, 1) == 1 {
						r.mu.Lock()
						r.seq++
						j.seq = r.seq
						r.mu.Unlock()
					}
				}
			}
			j.inChan = chanOn[op.C] || c2.VerifC05State(c.ss)&stChannel != 0 || c2.VerifC05State(c.sess)&stChannel != 0
			r.lastEv[op.C] = time.Now()
			r.jobs = append(r.jobs, j)
			r.outJ[op.C]++
			r.outS[op.C] += j.nfrag
			r.trace = append(r.trace, Ev{T: "task", C: op.C, J: int(j.id), P: strconv.FormatUint(j.ptok, 10), Acc: true})
			r.mu.Unlock()
			wg.Add(1)
			go func() {
				defer wg.Done()
				d := make(chan struct{})
				go func() { j.job.Wait(); close(d) }()
				ok := false
				select {
				case <-d:
					ok = true
				case <-j.lostCh:
				case <-time.After(waitDeadline + 5*time.Second):
				}
				if !ok {
					r.mu.Lock()
					r.outJ[j.c]--
					r.outS[j.c] -= j.nfrag
					r.cond.Broadcast()
					r.mu.Unlock()
					return
				}
				atomic.StoreInt32(&j.waited, 1)
				r.mu.Lock()
				j.resFirst = j.job.Result
				r.lastEv[j.c] = time.Now()
				r.outJ[j.c]--
				r.outS[j.c] -= j.nfrag
				r.trace = append(r.trace, Ev{T: "done", C: j.c, J: int(j.id)})
				r.done[j.c] = append(r.done[j.c], j)
				r.cond.Broadcast()
				r.mu.Unlock()
			}()
		}
	}
	// wait for the jobs (bounded), then let late duplicates show
	all := make(chan struct{})
	go func() { wg.Wait(); close(all) }()
	waitCh(all, waitDeadline)
	maxSleep := 20
	for _, s := range h.SleepMs {
		if s > maxSleep {
			maxSleep = s
		}
	}
	settle := time.Duration(4*maxSleep) * time.Millisecond
	if h.Profile != "none" {
		settle += 800 * time.Millisecond
	}
	time.Sleep(settle)
	close(stop)
	pollWg.Wait()

	// ---- the oracle
	r.mu.Lock()
	defer r.mu.Unlock()
	res.Jobs = len(r.jobs)
	var (
		lost      = 0
		logLines  = r.log.all()
		verdictAt = time.Now()
	)
	for _, j := range r.jobs {
		var (
			c  = clients[j.c]
			sh = shape(h, j, "chan")
		)
		if j.nfrag > 1 {
			res.Frag++
		}
		if atomic.LoadInt32(&j.waited) == 0 {
			lost++
			var (
				tag  = c.id.String()
				why  string
				kind = "chan"
				untr bool
			)
			if h.Profile == "none" {
				// which channel end (if any) took the packet?  (the log knows about channels the
				// 2 ms poller missed: SetChannel(true); SetChannel(false) back to back still opens one)
				kind, why = chanVerdict(logLines, tag, offs[j.c], j.tTask, verdictAt)
				if kind != "none" {
					j.inChan = true
				} else if j.inChan {
					// the harness saw the channel bit but the log shows no channel around the job:
					// judge it like a polling job (transport errors excuse it), else it is a loss
					// with the channel requested and nothing wrong logged
					// (no channel around it in the log: a polling-mode job)
					j.inChan = false
				}
			}
			switch {
			case untracked(logLines, tag, j.id, j.tTask):
				untr = true
			case !j.inChan:
				// polling: an exchange whose connection failed drops its packets; a history with
				// such a fault is outside the property (no faults in its quantifier)
				if ok, line := transportFault(logLines, tag, j.tTask, verdictAt); ok {
					res.Transport++
					res.Diag = append(res.Diag, fmt.Sprintf("job %d of client %d not judged, transport error on its session: %s", j.id, j.c, clip(line, 160)))
					continue
				}
			}
			sh = shape(h, j, kind)
			if untr {
				sh, why = "/untracked-result", "the server logged its result as un-tracked when Task returned"
			}
			q, pk, nj := c2.VerifC05Queue(c.ss)
			cq, cpk, _ := c2.VerifC05Queue(c.sess)
			ran := 0
			c.mu.Lock()
			for _, e := range c.exec {
				if e.job == j.id && ((j.kind != "echo" && j.kind != "fail") || e.ptok == j.ptok) {
					ran++
				}
			}
			c.mu.Unlock()
			if why != "" || kind == "chan-open" {
				if why != "" {
					why = "; first sign of the channel end: " + clip(why, 140)
				}
				if kind != "chan" {
					for _, l := range logLines {
						if strings.Contains(l.s, tag) && l.t.After(j.tTask.Add(-150*time.Millisecond)) && l.t.Before(j.tTask.Add(400*time.Millisecond)) {
							res.Diag = append(res.Diag, fmt.Sprintf("%8.2fms %c %s", float64(l.t.Sub(j.tTask).Microseconds())/1000, l.lv, clip(l.s, 150)))
						}
					}
				}
			}
			r.fails = append(r.fails, failRec{fmt.Sprintf("job %d (%s, %d bytes, %d fragment(s)) of client %d never completed (%s): status %d, executed %d time(s) on its client; "+
				"server queue %d peek %v tracked %d frags %d, client queue %d peek %v frags %d%s", j.id, j.kind, j.size, j.nfrag, j.c, lostWhy(j, quiet), j.job.Status, ran,
				q, pk, nj, c2.VerifC05Frags(c.ss), cq, cpk, c2.VerifC05Frags(c.sess), why), "incomplete" + sh})
			continue
		}
		if j.kind == "fail" {
			// a failing task: completes once with StatusError and the error its client returned
			want := fmt.Sprintf("boom:%d:%d", j.ptok, j.c)
			if j.job.Status != statusError || j.job.Result == nil {
				r.fails = append(r.fails, failRec{fmt.Sprintf("failing job %d of client %d finished with status %d (result nil: %v), want status error", j.id, j.c, j.job.Status, j.job.Result == nil), "status/fail" + sh})
				continue
			}
			if j.job.Error != want {
				r.fails = append(r.fails, failRec{fmt.Sprintf("failing job %d of client %d (shape %d: 0 fails at once, 1 string written first, 2 raw bytes first, 3 number+string first): Job.Error is %q, its client returned %q",
					j.id, j.c, j.payload[0], clip(j.job.Error, 80), want), fmt.Sprintf("wrong-error/shape%d", j.payload[0]) + sh})
			}
		} else if j.job.Status != statusDone || j.job.Result == nil || len(j.job.Error) > 0 {
			r.fails = append(r.fails, failRec{fmt.Sprintf("job %d of client %d finished with status %d error %q (result nil: %v)", j.id, j.c, j.job.Status, j.job.Error, j.job.Result == nil), "status" + sh})
			continue
		}
		if n := atomic.LoadInt32(&j.updDone); n > 1 {
			r.fails = append(r.fails, failRec{fmt.Sprintf("job %d of client %d: %d Update calls saw the finished Job", j.id, j.c, n), "completed-twice" + sh})
		} else if n == 0 {
			res.Stats["update_not_seen"]++
		}
		if j.job.Result != j.resFirst {
			r.fails = append(r.fails, failRec{fmt.Sprintf("job %d of client %d: the Result was replaced after the Job had completed", j.id, j.c), "result-replaced" + sh})
		}
		if j.job.Result.Device != c.id {
			r.fails = append(r.fails, failRec{fmt.Sprintf("job %d of client %d: the result packet carries another device id", j.id, j.c), "foreign-device" + sh})
		}
		if j.kind == "echo" {
			j.job.Result.Seek(0, 0)
			got := j.job.Result.Payload()
			if string(got) != string(echoResult(c.id, j.payload)) {
				r.fails = append(r.fails, failRec{fmt.Sprintf("job %d of client %d (%d bytes): the result (%d bytes) is not the echo of its own payload by its own client (%s)",
					j.id, j.c, j.size, len(got), describeResult(clients, r.jobs, got)), "wrong-result" + sh})
			}
		} else if j.kind == "fail" {
			// judged above
		} else if j.kind == "mv" {
			j.job.Result.Seek(0, 0)
			got := j.job.Result.Payload()
			switch uint8(j.val) {
			case task.MvPwd:
				d, _ := os.Getwd()
				var v string
				j.job.Result.ReadString(&v)
				if j.job.Result.Seek(0, 0); v != d {
					r.fails = append(r.fails, failRec{fmt.Sprintf("MvPwd job %d of client %d: result %q, the client's directory is %q", j.id, j.c, clip(v, 60), d), "wrong-result/mv" + sh})
				}
			default:
				if len(got) == 0 {
					r.fails = append(r.fails, failRec{fmt.Sprintf("job %d of client %d (task id 0x%X): empty result", j.id, j.c, j.val), "wrong-result/mv" + sh})
				}
			}
		} else {
			jit, sl, ok := decodeTime(j.job.Result)
			switch {
			case !ok:
				r.fails = append(r.fails, failRec{fmt.Sprintf("job %d of client %d (%s): result does not parse", j.id, j.c, j.kind), "wrong-result" + sh})
			case j.kind == "sleep" && sl != int64(time.Duration(j.val)*time.Millisecond):
				r.fails = append(r.fails, failRec{fmt.Sprintf("SetSleep job %d of client %d asked for %d ms, its result reports %d ns", j.id, j.c, j.val, sl), "wrong-result" + sh})
			case j.kind == "jitter" && int64(jit) != j.val:
				r.fails = append(r.fails, failRec{fmt.Sprintf("SetJitter job %d of client %d asked for %d, its result reports %d", j.id, j.c, j.val, jit), "wrong-result" + sh})
			}
		}
	}
	// execution log: the multiset of echo executions per client equals the multiset scheduled there
	for ci, c := range clients {
		want := map[[2]uint64]int{}
		for _, j := range r.jobs {
			if j.c == ci && (j.kind == "echo" || j.kind == "fail") {
				want[[2]uint64{uint64(j.id), j.ptok}]++
			}
		}
		c.mu.Lock()
		ex := append([]execRec(nil), c.exec...)
		c.mu.Unlock()
		ids := make([]int, 0, len(ex))
		for _, e := range ex {
			ids = append(ids, int(e.job))
			k := [2]uint64{uint64(e.job), e.ptok}
			if e.dev != c.id {
				r.fails = append(r.fails, failRec{fmt.Sprintf("client %d executed job %d with a result packet stamped for another device", ci, e.job), "exec-foreign-device/" + h.Profile})
			}
			if want[k] == 0 {
				who := "a task that was never scheduled on it"
				for _, j := range r.jobs {
					if (j.kind == "echo" || j.kind == "fail") && j.id == e.job && j.ptok == e.ptok {
						if j.c == ci {
							who = "its own job a second time"
						} else {
							who = fmt.Sprintf("a job of client %d", j.c)
						}
					}
				}
				key := "exec-extra/" + h.Profile
				if who == "its own job a second time" {
					key = "exec-twice/" + h.Profile
				}
				r.fails = append(r.fails, failRec{fmt.Sprintf("client %d executed job %d: %s", ci, e.job, who), key})
				continue
			}
			want[k]--
		}
		if lost == 0 {
			for k, n := range want {
				if n > 0 {
					r.fails = append(r.fails, failRec{fmt.Sprintf("job %d of client %d completed but was never executed on that client", k[0], ci), "exec-missing/" + h.Profile})
				}
			}
		}
		res.Exec = append(res.Exec, ids)
		// accepted results in completion order (Update order when seen, waiter order otherwise)
		dl := append([]*jobRec(nil), r.done[ci]...)
		sort.SliceStable(dl, func(a, b int) bool {
			if dl[a].seq != 0 && dl[b].seq != 0 {
				return dl[a].seq < dl[b].seq
			}
			return false
		})
		do := make([]DoneObs, 0, len(dl))
		for _, j := range dl {
			do = append(do, DoneObs{J: int(j.id), R: resultTok(clients, j)})
		}
		res.Done = append(res.Done, do)
	}
	if n := atomic.SwapInt32(&strayExec, 0); n > 0 {
		r.fails = append(r.fails, failRec{fmt.Sprintf("%d execution(s) of the echo task on a session that belongs to no client of a live history", n), "exec-stray"})
	}
	for i := range clients {
		if chanUsed[i] && chanSeen[i] {
			res.Stats["channel_reached"]++
		}
	}
	res.Trace, res.Fails = r.trace, r.fails
	if len(r.fails) > 0 {
		res.Diag = append(res.Diag, r.log.snapshot(60)...)
	}
	res.Stats["log_lines"] = len(r.log.all())
	return res
}

func lostWhy(j *jobRec, quiet time.Duration) string {
	if j.isLost {
		return fmt.Sprintf("nothing queued on either end for %s", quiet)
	}
	return fmt.Sprintf("deadline %s", waitDeadline)
}

func waitCond(c *sync.Cond, d time.Duration) {
	t := time.AfterFunc(d, c.Broadcast)
	c.Wait()
	t.Stop()
}

// decodeTime reads the (jitter, sleep) pair of a MvTime result.
func decodeTime(n *com.Packet) (uint8, int64, bool) {
	n.Seek(0, 0)
	b := n.Payload()
	if len(b) < 9 {
		return 0, 0, false
	}
	return b[0], int64(binary.BigEndian.Uint64(b[1:9])), true
}

// resultTok is the abstract result token, derived ONLY from what the server received:
// (index of the client named inside the result) * 2^64 + (token of the echoed payload).
func resultTok(clients []*cliRec, j *jobRec) string {
	if j.job == nil || j.job.Result == nil {
		return "(-1)"
	}
	if j.kind == "fail" {
		// from the error text the server received: "boom:<payload token>:<client>"
		var (
			t  uint64
			ci int
		)
		if n, err := fmt.Sscanf(j.job.Error, "boom:%d:%d", &t, &ci); n != 2 || err != nil {
			return "(-7)"
		}
		return fmt.Sprintf("(%d * 18446744073709551616 + %d)", ci, t)
	}
	if j.kind == "mv" {
		for i, c := range clients {
			if c.id == j.job.Result.Device {
				return fmt.Sprintf("(%d * 18446744073709551616 + %d)", i, uint64(1<<62|1<<60)|uint64(j.job.Type))
			}
		}
		return "(-3)"
	}
	if j.kind != "echo" {
		jit, sl, ok := decodeTime(j.job.Result)
		if !ok {
			return "(-2)"
		}
		ci := -1
		for i, c := range clients {
			if c.id == j.job.Result.Device {
				ci = i
			}
		}
		if ci < 0 {
			return "(-3)"
		}
		p := uint64(1<<62) | uint64(sl)
		if j.kind == "jitter" {
			p = 1<<62 | 1<<61 | uint64(jit)
		}
		return fmt.Sprintf("(%d * 18446744073709551616 + %d)", ci, p)
	}
	j.job.Result.Seek(0, 0)
	b := j.job.Result.Payload()
	if len(b) < device.IDSize+4 {
		return "(-4)"
	}
	if binary.BigEndian.Uint32(b[len(b)-4:]) != crc32.ChecksumIEEE(b[:len(b)-4]) {
		return "(-5)"
	}
	var id device.ID
	copy(id[:], b)
	ci := -1
	for i, c := range clients {
		if c.id == id {
			ci = i
		}
	}
	if ci < 0 {
		return "(-6)"
	}
	return fmt.Sprintf("(%d * 18446744073709551616 + %d)", ci, payloadTok(b[device.IDSize:len(b)-4]))
}

func describeResult(clients []*cliRec, jobs []*jobRec, b []byte) string {
	if len(b) < device.IDSize+4 {
		return "too short to be an echo"
	}
	var id device.ID
	copy(id[:], b)
	who := "an unknown device"
	for i, c := range clients {
		if c.id == id {
			who = fmt.Sprintf("client %d", i)
		}
	}
	t := payloadTok(b[device.IDSize : len(b)-4])
	for _, j := range jobs {
		if j.kind == "echo" && j.ptok == t {
			return fmt.Sprintf("it is the echo of job %d of client %d produced by %s", j.id, j.c, who)
		}
	}
	return "produced by " + who + ", payload of no scheduled job"
}

// ---------------------------------------------------------------- generation

// mix spreads the seed: vh.NewRand(s) and vh.NewRand(s+1) are the same stream one draw apart
func mix(x uint64) uint64 {
	x += 0x9E3779B97F4A7C15
	x = (x ^ (x >> 30)) * 0xBF58476D1CE4E5B9
	x = (x ^ (x >> 27)) * 0x94D049BB133111EB
	return x ^ (x >> 31)
}

func sizeGrid() []int {
	F := limits.Frag
	return []int{0, 1, 100, 1024, F / 2, F - 50, F, F + 1, 2*F + 100}
}

func genHist(r *vh.Rand, k int, class, prof string, nops int, big bool) Hist {
	h := Hist{K: k, Class: class, Profile: prof, NCl: 2 + r.Intn(2), MaxSlots: 100}
	h.MaxJobs = []int{1, 4, 16, 40, 40}[r.Intn(5)]
	h.Hooks = []string{"", "", "server", "client", "both"}[r.Intn(5)]
	for i := 0; i < h.NCl; i++ {
		h.SleepMs = append(h.SleepMs, []int{5, 10, 20}[r.Intn(3)])
	}
	grid := sizeGrid()
	many := 2 // many-fragment tasks per history
	for i := 0; i < nops; i++ {
		op := Op{C: r.Intn(h.NCl)}
		if r.Intn(3) == 0 {
			op.DelayUs = r.Intn(3000)
		}
		switch x := r.Intn(100); {
		case x < 72:
			op.Kind, op.Seed = "task", uint32(r.U64())
			switch y := r.Intn(100); {
			case y < 8:
				op.Kind, op.Val, op.Size = "fail", r.Intn(4), []int{1, 100, 1024}[r.Intn(3)]
				h.Ops = append(h.Ops, op)
				continue
			case y < 14 && prof == "none":
				op.Kind, op.Val = "mv", int(mvIDs[1+r.Intn(len(mvIDs)-1)]) // (MvRefresh only in the corpus, see there)
				h.Ops = append(h.Ops, op)
				continue
			}
			switch {
			case big && prof == "none" && many > 0 && r.Intn(12) == 0:
				// more fragments than the five wake-ups a client keeps a silent group
				op.Size, many = []int{5, 6, 8}[r.Intn(3)]*limits.Frag+100, many-1
			case big && r.Intn(4) == 0:
				op.Size = grid[4+r.Intn(5)]
			default:
				op.Size = grid[r.Intn(4)]
			}
		case x < 80 && prof == "none":
			// (with a wrapper or transform a channel over TCP never works: known finding, corpus only)
			op.Kind, op.On = "chan", r.Intn(5) < 3
			if r.Intn(3) == 0 {
				op.Kind = "cchan" // switched on the client Session
			}
		case x < 80:
			op.Kind, op.Val = "pause", 1+r.Intn(40)
		case x < 86:
			op.Kind, op.Val = "sleep", []int{5, 10, 20}[r.Intn(3)]
		case x < 90:
			op.Kind, op.Val = "jitter", []int{0, 10, 50}[r.Intn(3)]
		default:
			op.Kind, op.Val = "pause", 1+r.Intn(40)
		}
		h.Ops = append(h.Ops, op)
	}
	return h
}

// teardown: a channel-mode session that is left idle for a little more than 5 x sleep before
// every task, so that the client's channel reader times out around the time the task travels
// (representative of the known finding "a packet in transit when a channel is torn down is lost")
func teardown(class string, size, n int) Hist {
	h := Hist{Class: class, NCl: 2, Profile: "none", SleepMs: []int{5, 10}, MaxJobs: 40, MaxSlots: 100,
		Ops: []Op{{Kind: "chan", C: 0, On: true}, {Kind: "task", C: 1, Size: 100, Seed: 90}}}
	for i := 0; i < n; i++ {
		h.Ops = append(h.Ops, Op{Kind: "pause", C: 0, Val: 24 + i%9}, Op{Kind: "task", C: 0, Size: size, Seed: uint32(100 + i)})
	}
	return h
}

// burst: many tiny tasks through an open channel on a fast link: the result of a task can be
// back before Task has registered the Job (known finding incomplete/untracked-result)
func burst(class string, n int) Hist {
	h := Hist{Class: class, NCl: 2, Profile: "none", SleepMs: []int{5, 10}, MaxJobs: 4, MaxSlots: 100,
		Ops: []Op{{Kind: "chan", C: 0, On: true}, {Kind: "pause", C: 0, Val: 30}}}
	for i := 0; i < n; i++ {
		h.Ops = append(h.Ops, Op{Kind: "task", C: 0, Size: i % 2, Seed: uint32(500 + i)})
	}
	return h
}

// mvTasks: every task id the default client mux answers itself, each one alone (a pause of
// several polls before it) and then all of them back to back (one Multi batch), on both clients.
// No SetSleep / SetJitter here: after MvRefresh the client reports the machine id of this process
// (all clients of the harness share it) and the server would address MvTime packets to it.
func mvTasks(class string) Hist {
	h := Hist{Class: class, NCl: 2, Profile: "none", SleepMs: []int{10, 10}, MaxJobs: 40, MaxSlots: 100}
	for i, id := range mvIDs {
		h.Ops = append(h.Ops, Op{Kind: "pause", Val: 50}, Op{Kind: "mv", C: i % 2, Val: int(id)})
	}
	h.Ops = append(h.Ops, Op{Kind: "pause", Val: 80})
	for _, id := range mvIDs {
		h.Ops = append(h.Ops, Op{Kind: "mv", C: 0, Val: int(id)})
	}
	for _, id := range mvIDs {
		h.Ops = append(h.Ops, Op{Kind: "mv", C: 1, Val: int(id)})
	}
	return h
}

func corpus() []Hist {
	F := limits.Frag
	return []Hist{
		{Class: "corpus-one-task", NCl: 2, Profile: "none", SleepMs: []int{10, 10}, MaxJobs: 40, MaxSlots: 100,
			Ops: []Op{{Kind: "task", C: 0, Size: 100, Seed: 1}, {Kind: "task", C: 1, Size: 100, Seed: 2}}},
		{Class: "corpus-grid", NCl: 2, Profile: "none", SleepMs: []int{5, 10}, MaxJobs: 40, MaxSlots: 100,
			Ops: []Op{{Kind: "task", C: 0, Size: 0, Seed: 3}, {Kind: "task", C: 1, Size: 1, Seed: 4}, {Kind: "task", C: 0, Size: F - 50, Seed: 5},
				{Kind: "task", C: 1, Size: F, Seed: 6}, {Kind: "task", C: 0, Size: F + 1, Seed: 7}, {Kind: "task", C: 1, Size: 2*F + 100, Seed: 8},
				{Kind: "task", C: 0, Size: F / 2, Seed: 9}, {Kind: "task", C: 1, Size: 1024, Seed: 10}}},
		{Class: "corpus-channel", NCl: 2, Profile: "none", SleepMs: []int{10, 20}, MaxJobs: 40, MaxSlots: 100,
			Ops: []Op{{Kind: "task", C: 0, Size: 100, Seed: 11}, {Kind: "chan", C: 0, On: true}, {Kind: "task", C: 0, Size: 1024, Seed: 12},
				{Kind: "task", C: 1, Size: 100, Seed: 13}, {Kind: "pause", Val: 40}, {Kind: "task", C: 0, Size: F + 1, Seed: 14},
				{Kind: "chan", C: 0, On: false}, {Kind: "task", C: 0, Size: 1, Seed: 15}, {Kind: "sleep", C: 1, Val: 5}, {Kind: "jitter", C: 0, Val: 10},
				{Kind: "task", C: 1, Size: 0, Seed: 16}}},
		{Class: "corpus-xorzlib", NCl: 2, Profile: "xorzlib", SleepMs: []int{10, 10}, MaxJobs: 40, MaxSlots: 100,
			Ops: []Op{{Kind: "task", C: 0, Size: 100, Seed: 17}, {Kind: "task", C: 1, Size: 1024, Seed: 18}, {Kind: "task", C: 0, Size: F + 1, Seed: 19}}},
		{Class: "corpus-many-fragments", NCl: 2, Profile: "none", SleepMs: []int{5, 10}, MaxJobs: 40, MaxSlots: 100,
			Ops: []Op{{Kind: "task", C: 0, Size: 5*F + 100, Seed: 31}, {Kind: "task", C: 1, Size: 6*F + 100, Seed: 32}, {Kind: "task", C: 0, Size: 100, Seed: 33},
				{Kind: "task", C: 0, Size: 8*F + 100, Seed: 34}, {Kind: "task", C: 1, Size: 1024, Seed: 35}, {Kind: "task", C: 1, Size: 5*F + 100, Seed: 36}}},
		{Class: "corpus-channel-reopen", NCl: 2, Profile: "none", SleepMs: []int{20, 20}, MaxJobs: 40, MaxSlots: 100,
			Ops: []Op{{Kind: "task", C: 0, Size: 100, Seed: 41}, {Kind: "chan", C: 0, On: true}, {Kind: "pause", Val: 60}, {Kind: "task", C: 0, Size: 100, Seed: 42},
				{Kind: "pause", Val: 60}, {Kind: "chan", C: 0, On: false}, {Kind: "pause", Val: 400}, {Kind: "task", C: 0, Size: 100, Seed: 43}, {Kind: "pause", Val: 200},
				{Kind: "chan", C: 0, On: true}, {Kind: "pause", Val: 60}, {Kind: "task", C: 0, Size: 100, Seed: 44}, {Kind: "pause", Val: 300},
				{Kind: "task", C: 0, Size: 1024, Seed: 45}, {Kind: "pause", Val: 300}, {Kind: "chan", C: 0, On: false}, {Kind: "pause", Val: 400},
				{Kind: "chan", C: 0, On: true}, {Kind: "pause", Val: 60}, {Kind: "task", C: 0, Size: 1, Seed: 46}, {Kind: "task", C: 1, Size: 100, Seed: 47}}},
		{Class: "corpus-receive-hooks", NCl: 2, Profile: "none", Hooks: "both", SleepMs: []int{10, 10}, MaxJobs: 40, MaxSlots: 100,
			Ops: []Op{{Kind: "task", C: 0, Size: 100, Seed: 51}, {Kind: "task", C: 1, Size: 1024, Seed: 52}, {Kind: "task", C: 0, Size: F + 1, Seed: 53},
				{Kind: "sleep", C: 1, Val: 5}, {Kind: "task", C: 1, Size: 0, Seed: 54}}},
		{Class: "corpus-receive-server", NCl: 2, Profile: "none", Hooks: "server", SleepMs: []int{10, 10}, MaxJobs: 40, MaxSlots: 100,
			Ops: []Op{{Kind: "task", C: 0, Size: 100, Seed: 55}, {Kind: "task", C: 1, Size: 1, Seed: 56}}},
		{Class: "corpus-receive-client", NCl: 2, Profile: "none", Hooks: "client", SleepMs: []int{10, 10}, MaxJobs: 40, MaxSlots: 100,
			Ops: []Op{{Kind: "task", C: 0, Size: 100, Seed: 57}, {Kind: "task", C: 1, Size: 1, Seed: 58}}},
		{Class: "corpus-client-channel", NCl: 2, Profile: "none", SleepMs: []int{20, 20}, MaxJobs: 40, MaxSlots: 100,
			Ops: []Op{{Kind: "task", C: 0, Size: 100, Seed: 61}, {Kind: "cchan", C: 0, On: true}, {Kind: "pause", Val: 60}, {Kind: "task", C: 0, Size: 100, Seed: 62},
				{Kind: "pause", Val: 200}, {Kind: "task", C: 0, Size: 1024, Seed: 63}, {Kind: "task", C: 1, Size: 100, Seed: 64}, {Kind: "pause", Val: 200},
				{Kind: "cchan", C: 0, On: false}, {Kind: "pause", Val: 300}, {Kind: "task", C: 0, Size: 1, Seed: 65}}},
		{Class: "corpus-task-kinds", NCl: 2, Profile: "none", SleepMs: []int{10, 10}, MaxJobs: 40, MaxSlots: 100,
			Ops: []Op{{Kind: "task", C: 0, Size: 100, Seed: 71}, {Kind: "fail", C: 0, Val: 0, Size: 100, Seed: 72}, {Kind: "fail", C: 1, Val: 1, Size: 100, Seed: 73},
				{Kind: "fail", C: 0, Val: 2, Size: 1024, Seed: 74}, {Kind: "fail", C: 1, Val: 3, Size: 1, Seed: 75}, {Kind: "task", C: 1, Size: 1, Seed: 76},
				{Kind: "pause", Val: 60}, {Kind: "fail", C: 0, Val: 1, Size: 1, Seed: 77}, {Kind: "pause", Val: 60}, {Kind: "fail", C: 1, Val: 2, Size: 100, Seed: 78}}},
		mvTasks("corpus-mv-tasks"),
		burst("corpus-channel-burst", 400),
		teardown("corpus-channel-teardown", 100, 44),
		teardown("corpus-channel-teardown-frag", F+1, 14),
		{Class: "corpus-channel-xorzlib", NCl: 2, Profile: "xorzlib", SleepMs: []int{20, 20}, MaxJobs: 40, MaxSlots: 100,
			Ops: []Op{{Kind: "chan", C: 0, On: true}, {Kind: "pause", Val: 300}, {Kind: "task", C: 0, Size: 100, Seed: 23}, {Kind: "task", C: 1, Size: 100, Seed: 24}}},
		{Class: "corpus-channel-b64", NCl: 2, Profile: "b64", SleepMs: []int{20, 20}, MaxJobs: 40, MaxSlots: 100,
			Ops: []Op{{Kind: "chan", C: 0, On: true}, {Kind: "pause", Val: 300}, {Kind: "task", C: 0, Size: 100, Seed: 25}, {Kind: "task", C: 1, Size: 100, Seed: 26}}},
		{Class: "corpus-b64", NCl: 2, Profile: "b64", SleepMs: []int{10, 10}, MaxJobs: 40, MaxSlots: 100,
			Ops: []Op{{Kind: "task", C: 0, Size: 100, Seed: 20}, {Kind: "task", C: 1, Size: 1024, Seed: 21}, {Kind: "task", C: 0, Size: F + 1, Seed: 22}}},
	}
}

func generate(r *vh.Rand, tier string) []Hist {
	hs := corpus()
	type plan struct {
		class, prof string
		n, ops      int
		big         bool
	}
	plans := []plan{
		{"burst-small", "none", 8, 70, false},
		{"mixed-sizes", "none", 8, 36, true},
		{"long", "none", 2, 160, true},
		{"wrapper", "xorzlib", 3, 8, true},
		{"transform", "b64", 3, 8, true},
	}
	if tier == "thorough" {
		plans = []plan{
			{"burst-small", "none", 150, 80, false},
			{"mixed-sizes", "none", 150, 40, true},
			{"long", "none", 40, 300, true},
			{"wrapper", "xorzlib", 40, 12, true},
			{"transform", "b64", 40, 12, true},
		}
	}
	for _, p := range plans {
		for i := 0; i < p.n; i++ {
			hs = append(hs, genHist(r, 0, p.class, p.prof, p.ops, p.big))
		}
	}
	rounds := 2500
	if tier == "thorough" {
		rounds = 12000
	}
	// first, so that it runs beside the other histories from the start
	hs = append([]Hist{{Class: "rekey-race", Kind: "rekey-race", Rounds: rounds, NCl: 1, Profile: "none", SleepMs: []int{0}, MaxJobs: 1, MaxSlots: 100}}, hs...)
	for i := range hs {
		hs[i].K = i
	}
	return hs
}

// ---------------------------------------------------------------- Coq case

func coqCase(h Hist, res HRes) string {
	var ops []string
	for _, e := range res.Trace {
		switch e.T {
		case "task":
			ops = append(ops, fmt.Sprintf("OTask %d %d %s %s", e.C, e.J, e.P, vh.B(e.Acc)))
		case "chan":
			ops = append(ops, fmt.Sprintf("OChan %d %s", e.C, vh.B(e.On)))
		case "done":
			ops = append(ops, fmt.Sprintf("ODone %d %d", e.C, e.J))
		case "rekey":
			ops = append(ops, fmt.Sprintf("ORekey %d", e.C))
		}
	}
	var obs []string
	for c := 0; c < h.NCl; c++ {
		var d, x []string
		if c < len(res.Done) {
			for _, o := range res.Done[c] {
				d = append(d, fmt.Sprintf("(%d,%s)", o.J, o.R))
			}
		}
		if c < len(res.Exec) {
			for _, j := range res.Exec[c] {
				x = append(x, strconv.Itoa(j))
			}
		}
		obs = append(obs, "("+vh.List(d)+","+vh.List(x)+")")
	}
	return fmt.Sprintf("Case %d %s %s", h.NCl, vh.List(ops), vh.List(obs))
}

// ---------------------------------------------------------------- child / parent

func childMain(file string, par int) {
	var hs []Hist
	b, err := os.ReadFile(file)
	if err != nil {
		panic(err)
	}
	if err = json.Unmarshal(b, &hs); err != nil {
		panic(err)
	}
	task.Mappings[echoID] = echoTasker
	task.Mappings[gatedID] = gatedTasker
	task.Mappings[failID] = failTasker
	var (
		w     = bufio.NewWriter(os.Stdout)
		wmu   sync.Mutex
		ch    = make(chan Hist)
		wg    sync.WaitGroup
		rmu   sync.Mutex
		retry []Hist
	)
	emit := func(tag string, v interface{}) {
		b, _ := json.Marshal(v)
		wmu.Lock()
		w.WriteString(tag + " ")
		w.Write(b)
		w.WriteByte('\n')
		w.Flush()
		wmu.Unlock()
	}
	for i := 0; i < par; i++ {
		wg.Add(1)
		go func() {
			defer wg.Done()
			for h := range ch {
				emit("START", h.K)
				n := h.Repeat
				if n < 1 {
					n = 1
				}
				var res HRes
				for i := 0; i < n; i++ {
					res = runHist(h, uint64(h.K)*1000+uint64(i)+uint64(os.Getpid())<<20)
					if len(res.Fails) > 0 || res.Transport > 0 {
						break
					}
				}
				if res.Transport > 0 {
					rmu.Lock()
					retry = append(retry, h)
					rmu.Unlock()
					continue
				}
				emit("RES", res)
			}
		}()
	}
	for _, h := range hs {
		ch <- h
	}
	close(ch)
	wg.Wait()
	// histories in which a transport error hid the fate of a job: once more, alone, with gentler
	// timing; if the transport still fails they are recorded as transport-fault, not judged
	for _, h := range retry {
		for i := range h.SleepMs {
			if h.SleepMs[i] < 20 {
				h.SleepMs[i] = 20
			}
		}
		time.Sleep(300 * time.Millisecond)
		res := runHist(h, uint64(h.K)*1000+500+uint64(os.Getpid())<<20)
		res.Retried = true
		emit("RES", res)
	}
}

func runChild(hs []Hist, par int, dir string, results map[int]HRes, crashes *[]string) {
	todo := hs
	for round := 0; len(todo) > 0 && round < 4; round++ {
		f := fmt.Sprintf("%s/hist_%d.json", dir, round)
		b, _ := json.Marshal(todo)
		os.WriteFile(f, b, 0o644)
		cmd := exec.Command(os.Args[0], "-out", dir, "-child", f, "-par", strconv.Itoa(par))
		var errb strings.Builder
		cmd.Stderr = &errb
		so, _ := cmd.StdoutPipe()
		if err := cmd.Start(); err != nil {
			panic(err)
		}
		started := map[int]bool{}
		sc := bufio.NewScanner(so)
		sc.Buffer(make([]byte, 1<<20), 1<<28)
		for sc.Scan() {
			line := sc.Text()
			switch {
			case strings.HasPrefix(line, "START "):
				k, _ := strconv.Atoi(line[6:])
				started[k] = true
			case strings.HasPrefix(line, "RES "):
				var r HRes
				if json.Unmarshal([]byte(line[4:]), &r) == nil {
					results[r.K] = r
				}
			}
		}
		err := cmd.Wait()
		var rest []Hist
		for _, h := range todo {
			if _, ok := results[h.K]; ok {
				continue
			}
			if started[h.K] && err != nil {
				msg := clip(errb.String(), 3000)
				*crashes = append(*crashes, msg)
				results[h.K] = HRes{K: h.K, Panic: msg, Fails: []failRec{{"the process died while this history was running (panic in a library goroutine): " + clip(msg, 600), "crash/" + h.Profile}}}
				continue
			}
			rest = append(rest, h)
		}
		os.Remove(f)
		if err == nil && len(rest) > 0 {
			panic("child exited cleanly without reporting every history")
		}
		todo = rest
	}
	if len(todo) > 0 {
		panic("child kept crashing before starting the remaining histories")
	}
}

func main() {
	var (
		child = flag.String("child", "", "internal: run the histories of this file")
		par   = flag.Int("par", 0, "histories run in parallel")
		drop  = flag.String("drop", "", "experiment: comma separated op kinds removed from the generated histories")
	)
	fl := vh.ParseFlags()
	if *child != "" {
		childMain(*child, *par)
		return
	}
	if *par <= 0 {
		*par = 4
		if v, err := strconv.Atoi(os.Getenv("VERIF_JOBS")); err == nil && v > 0 && v < *par {
			*par = v
		}
	}
	out := vh.NewOut("C05", fl, "From XMT Require Import Base.Prelude Model.Exchange.", "case", "check",
		"a history is non-trivial when at least two jobs were outstanding at the same time on one session, or a job was fragmented, or the session switched mode, or it re-keyed")
	out.ShardSize = 12
	// the empty history (also keeps the shard list non-empty when every history of a replay fails its oracle)
	out.Add("Case 0 [] []", "empty", false, "no device, no step")
	var hs []Hist
	if fl.Replay != "" {
		var rp struct {
			Input Hist `json:"input"`
		}
		b, err := os.ReadFile(fl.Replay)
		if err != nil {
			panic(err)
		}
		if err = json.Unmarshal(b, &rp); err != nil {
			panic(err)
		}
		if rp.Input.Repeat < 1 {
			rp.Input.Repeat = 5
		}
		rp.Input.K = 0
		hs = []Hist{rp.Input}
	} else {
		hs = generate(vh.NewRand(mix(fl.Seed)), fl.Tier)
		if *drop != "" {
			for i := range hs {
				var ops []Op
				for _, o := range hs[i].Ops {
					if !strings.Contains(","+*drop+",", ","+o.Kind+",") {
						ops = append(ops, o)
					}
				}
				hs[i].Ops = ops
			}
		}
	}
	var (
		results = map[int]HRes{}
		crashes []string
		t0      = time.Now()
	)
	runChild(hs, *par, fl.Out, results, &crashes)
	byKey := map[string]int{}
	raceRounds, raceKeys, transportHists, retried := 0, 0, 0, 0
	var (
		totalJobs, totalFrag, totalChan, totalRekey, chanReached, updMiss int
		totalMs                                                           int64
	)
	for _, h := range hs {
		res := results[h.K]
		maxOut := 0
		{
			cur := map[int]int{}
			for _, e := range res.Trace {
				if e.T == "task" && e.Acc {
					cur[e.C]++
					if cur[e.C] > maxOut {
						maxOut = cur[e.C]
					}
				} else if e.T == "done" {
					cur[e.C]--
				}
			}
		}
		nontrivial := maxOut >= 2 || res.Frag > 0 || res.Chan > 0 || res.Rekeys > 0
		desc := map[string]interface{}{"history": h, "jobs": res.Jobs, "fragmented": res.Frag, "channel_switches": res.Chan, "rekeys": res.Rekeys,
			"max_outstanding": maxOut, "ms": res.Ms, "stats": res.Stats}
		if h.Kind == "rekey-race" {
			// oracle only: thousands of one-job rounds add nothing to the model comparison
			desc["rounds"] = res.Jobs
			out.Count(h.Class, fmt.Sprintf("%d/%d", res.Jobs, res.Rekeys), res.Rekeys > 0)
			raceRounds, raceKeys = raceRounds+res.Jobs, raceKeys+res.Rekeys
		} else if res.Transport > 0 {
			// the transport failed again in the gentler re-run: a fault history, outside the
			// property; counted, not compared with the model, its unjudged jobs not failed
			desc["transport_fault_jobs"], desc["not_judged"] = res.Transport, res.Diag
			out.Count("transport-fault", fmt.Sprint(h.K), false)
			transportHists++
		} else if res.Panic == "" && len(res.Fails) == 0 {
			out.Add(coqCase(h, res), h.Class, nontrivial, desc)
		} else {
			out.Count(h.Class, fmt.Sprint(h.K), false)
		}
		for _, f := range res.Fails {
			// vh keeps the first 200 failures only: at most 8 records per key, so that a
			// frequent (known) key can never crowd out a different one; all are counted
			if byKey[f.Key]++; byKey[f.Key] > 8 {
				continue
			}
			out.Fail(f.What, f.Key, map[string]interface{}{"k": h.K, "class": h.Class, "clients": h.NCl, "profile": h.Profile, "sleep_ms": h.SleepMs,
				"max_outstanding_jobs": h.MaxJobs, "max_outstanding_slots": h.MaxSlots, "ops": h.Ops, "kind": h.Kind, "rounds": h.Rounds, "hooks": h.Hooks, "log_tail": res.Diag})
		}
		if res.Retried {
			retried++
		}
		totalJobs += res.Jobs
		totalFrag += res.Frag
		totalChan += res.Chan
		totalRekey += res.Rekeys
		totalMs += res.Ms
		chanReached += res.Stats["channel_reached"]
		updMiss += res.Stats["update_not_seen"]
	}
	out.Extra("oracle_failures_by_key", byKey)
	out.Extra("histories_rerun_after_transport_error", retried)
	out.Extra("histories_recorded_as_transport_fault", transportHists)
	out.Extra("rekey_race_rounds", raceRounds)
	out.Extra("rekey_race_rekeys", raceKeys)
	out.Extra("histories", len(hs))
	out.Extra("jobs", totalJobs)
	out.Extra("fragmented_jobs", totalFrag)
	out.Extra("channel_switch_calls", totalChan)
	out.Extra("sessions_seen_in_channel_mode", chanReached)
	out.Extra("rekeys_observed", totalRekey)
	out.Extra("jobs_completed_before_update_was_set", updMiss)
	out.Extra("history_ms_total", totalMs)
	out.Extra("wall_ms", time.Since(t0).Milliseconds())
	out.Extra("parallel", *par)
	out.Extra("child_crashes", len(crashes))
	if transportHists > 0 {
		out.Note(fmt.Sprintf("%d history(ies) had a transport error (connect / read / write error, deadline, reset) on the session of a job that did not complete, in the first run "+
			"and in the gentler re-run: fault histories are outside the property, they are counted as transport-fault and not judged", transportHists))
	}
	if updMiss > 0 {
		out.Note(fmt.Sprintf("%d job(s) completed before the caller could set Job.Update (the field is assigned after Task returns): their completion was observed through Wait only", updMiss))
	}
	out.Finish()
}
