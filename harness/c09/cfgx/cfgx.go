// Package cfgx is shared by the C08 and C09 harnesses: it runs every profile-parsing entry
// point of c2/cfg on a byte string under recover() with a watchdog, projects the result to
// the flat observable of coq/Model/Cfg.v and prints the CParse correspondence case.
package cfgx

import (
	"crypto/ecdsa"
	"crypto/elliptic"
	"crypto/rand"
	"crypto/x509"
	"crypto/x509/pkix"
	"encoding/json"
	"encoding/pem"
	"errors"
	"fmt"
	"math/big"
	"os"
	"path/filepath"
	"strings"
	"time"

	"github.com/iDigitalFlame/xmt/c2/cfg"

	"verifharness/vh"
)

// Outcome of one call: class 0 ok, 1 error (Code), 2 panic, 3 hang.
type Outcome struct {
	Class int
	Code  int
	Msg   string
}

func (o Outcome) String() string {
	switch o.Class {
	case 0:
		return "ok"
	case 1:
		return fmt.Sprintf("err%d(%s)", o.Code, o.Msg)
	case 2:
		return "panic(" + o.Msg + ")"
	}
	return "hang"
}

// ErrCode maps an error of c2/cfg to the model's code.
func ErrCode(err error) int {
	switch {
	case errors.Is(err, cfg.ErrInvalidSetting):
		return 1
	case errors.Is(err, cfg.ErrMultipleConnections):
		return 2
	case errors.Is(err, cfg.ErrMultipleTransforms):
		return 3
	}
	return 9
}

// Watchdog is the time after which a call is declared hung.
var Watchdog = 10 * time.Second

// Guard runs f under recover() in its own goroutine with a watchdog.
func Guard(f func() error) Outcome {
	ch := make(chan Outcome, 1)
	go func() {
		defer func() {
			if r := recover(); r != nil {
				ch <- Outcome{Class: 2, Msg: fmt.Sprint(r)}
			}
		}()
		if err := f(); err != nil {
			ch <- Outcome{Class: 1, Code: ErrCode(err), Msg: err.Error()}
			return
		}
		ch <- Outcome{}
	}()
	t := time.NewTimer(Watchdog)
	defer t.Stop()
	select {
	case o := <-ch:
		return o
	case <-t.C:
		return Outcome{Class: 3}
	}
}

// GuardFast is Guard without the goroutine (used when a watchdog run of the same input already passed).
func GuardFast(f func() error) (o Outcome) {
	defer func() {
		if r := recover(); r != nil {
			o = Outcome{Class: 2, Msg: fmt.Sprint(r)}
		}
	}()
	if err := f(); err != nil {
		return Outcome{Class: 1, Code: ErrCode(err), Msg: err.Error()}
	}
	return Outcome{}
}

// Sums is the model's `sums`: sum of (byte+1) and sum of the running sums.
func Sums(s []byte) (int64, int64) {
	var a, b int64
	for _, x := range s {
		a += int64(x) + 1
		b += a
	}
	return a, b
}

// Dig appends the model's `dig s` = [len; sums].
func Dig(o []int64, s []byte) []int64 {
	a, b := Sums(s)
	return append(o, int64(len(s)), a, b)
}

func dig(o []int64, s []byte) []int64 { return Dig(o, s) }

func flatItem(o []int64, it *cfg.VItem) []int64 {
	o = append(o, int64(it.Kind), int64(len(it.Nums)))
	o = append(o, it.Nums...)
	o = append(o, int64(len(it.Strs)))
	for _, s := range it.Strs {
		o = dig(o, s)
	}
	return o
}

// FlatProf is flat_prof of the model.
func FlatProf(o []int64, p *cfg.VProf) []int64 {
	o = append(o, int64(len(p.Hosts)))
	for _, h := range p.Hosts {
		o = dig(o, []byte(h))
	}
	kds := int64(0)
	if p.KDS {
		kds = 1
	}
	o = append(o, p.Sleep, p.Jitter, kds, p.Kill)
	if p.Work == nil {
		o = append(o, 0)
	} else {
		o = append(o, 1)
		o = append(o, p.Work...)
	}
	o = append(o, int64(len(p.Keys)))
	for _, k := range p.Keys {
		o = append(o, int64(k))
	}
	o = append(o, p.Weight)
	if p.Conn == nil {
		o = append(o, 0)
	} else {
		o = flatItem(append(o, 1), p.Conn)
	}
	o = append(o, int64(len(p.Wraps)))
	for i := range p.Wraps {
		o = flatItem(o, &p.Wraps[i])
	}
	if p.Trans == nil {
		o = append(o, 0)
	} else {
		o = flatItem(append(o, 1), p.Trans)
	}
	return o
}

// FlatDump is flat_build of the model.
func FlatDump(d *cfg.VDump) []int64 {
	o := []int64{d.Sel, int64(len(d.Entries))}
	for i := range d.Entries {
		o = FlatProf(o, &d.Entries[i])
	}
	return o
}

// Result of running every entry point on one byte string.
type Result struct {
	C        []byte
	Validate Outcome
	Build    Outcome
	Dump     cfg.VDump
	Groups   Outcome
	NGroups  int
	GroupPs  []int
	GroupOut []Outcome
	GroupVal [][]byte
	Marshal  Outcome
	MarshalB []byte
	Str      Outcome
	JSON     Outcome
	JSONOut  []byte
	Profile  cfg.Profile
}

type binaryMarshaler interface{ MarshalBinary() ([]byte, error) }

// Run calls Validate, Build, Groups, Group(p…), MarshalBinary, String, MarshalJSON on c.
func Run(c []byte) *Result {
	r := &Result{C: c}
	k := cfg.Config(c)
	r.Validate = Guard(func() error { return k.Validate() })
	r.Build = Guard(func() error {
		p, err := k.Build()
		if err == nil {
			r.Profile = p
			r.Dump = cfg.VerifDump(p)
		}
		return err
	})
	r.Groups = Guard(func() error { r.NGroups = k.Groups(); return nil })
	ps := []int{-2, -1, 0, 1, 2, 3}
	if r.Groups.Class == 0 && r.NGroups > 2 {
		ps = append(ps, r.NGroups-1, r.NGroups, r.NGroups+1)
	}
	for _, p := range ps {
		p := p
		var g []byte
		o := Guard(func() error { g = k.Group(p); return nil })
		r.GroupPs = append(r.GroupPs, p)
		r.GroupOut = append(r.GroupOut, o)
		r.GroupVal = append(r.GroupVal, g)
	}
	if r.Build.Class == 0 {
		if r.Profile == nil {
			r.Marshal = Outcome{Class: 1, Code: 9, Msg: "nil profile"}
		} else if m, ok := r.Profile.(binaryMarshaler); ok {
			r.Marshal = Guard(func() error {
				b, err := m.MarshalBinary()
				r.MarshalB = b
				return err
			})
		} else {
			r.Marshal = Outcome{Class: 1, Code: 9, Msg: "no MarshalBinary"}
		}
	} else {
		r.Marshal = r.Build
	}
	r.Str = Guard(func() error { _ = k.String(); return nil })
	r.JSON = Guard(func() error {
		b, err := k.MarshalJSON()
		r.JSONOut = b
		return err
	})
	return r
}

func resUnit(o Outcome) string {
	switch o.Class {
	case 0:
		return "(Ok tt)"
	case 1:
		return vh.ResErr(o.Code)
	}
	return "Panic" // a hang is reported by the oracle; the model has no such outcome
}

func resBytes(o Outcome, b []byte) string {
	switch o.Class {
	case 0:
		return vh.ResOk(vh.Bytes(b))
	case 1:
		return vh.ResErr(o.Code)
	}
	return "Panic"
}

// TLSOK is the model's tlsok flag: no error from outside cfg was observed in Build.
func (r *Result) TLSOK() bool { return !(r.Build.Class == 1 && r.Build.Code == 9) }

// CoqTerm prints the CParse case; cexpr is the Coq expression for the bytes (a literal by default).
func (r *Result) CoqTerm(cexpr string) string {
	if cexpr == "" {
		cexpr = vh.Bytes(r.C)
	}
	var sb strings.Builder
	sb.WriteString("CParse ")
	sb.WriteString(cexpr)
	sb.WriteString(" " + vh.B(r.TLSOK()) + " ")
	sb.WriteString(resUnit(r.Validate) + " ")
	switch r.Build.Class {
	case 0:
		sb.WriteString(vh.ResOk(vh.ZList64(FlatDump(&r.Dump))))
	case 1:
		sb.WriteString(vh.ResErr(r.Build.Code))
	default:
		sb.WriteString("Panic")
	}
	switch r.Groups.Class {
	case 0:
		sb.WriteString(" " + vh.ResOk(vh.Z(int64(r.NGroups))))
	default:
		sb.WriteString(" Panic")
	}
	items := make([]string, len(r.GroupPs))
	for i, p := range r.GroupPs {
		g := resBytes(r.GroupOut[i], r.GroupVal[i])
		if cexpr != vh.Bytes(r.C) && r.GroupOut[i].Class == 0 && len(r.GroupVal[i]) > 64 {
			// big configs: the group is described by its position in the source
			g = "(Ok " + sliceExpr(cexpr, r.C, r.GroupVal[i]) + ")"
		}
		items[i] = "(" + vh.Z(int64(p)) + "," + g + ")"
	}
	sb.WriteString(" " + vh.List(items) + " ")
	if r.Marshal.Class == 0 && cexpr != vh.Bytes(r.C) && string(r.MarshalB) == string(r.C) {
		sb.WriteString("(Ok " + cexpr + ")")
	} else {
		sb.WriteString(resBytes(r.Marshal, r.MarshalB))
	}
	sb.WriteString(" " + resUnit(r.Str) + " " + resUnit(r.JSON))
	return sb.String()
}

// sliceExpr describes g (a sub-slice of c sharing its backing array) as take/drop of cexpr.
func sliceExpr(cexpr string, c, g []byte) string {
	if len(g) == 0 {
		return "[]"
	}
	for off := 0; off+len(g) <= len(c); off++ {
		if &c[off] == &g[0] {
			return fmt.Sprintf("(take %d (drop %d %s))", len(g), off, cexpr)
		}
	}
	return vh.Bytes(g)
}

// Ints renders bytes for JSON descriptions.
func Ints(b []byte) []int {
	o := make([]int, len(b))
	for i, x := range b {
		o[i] = int(x)
	}
	return o
}

// Desc is the JSON description of a parse case.
func (r *Result) Desc(note string) map[string]interface{} {
	c := r.C
	d := map[string]interface{}{"len": len(c), "validate": r.Validate.String(), "build": r.Build.String(), "groups": r.Groups.String(),
		"string": r.Str.String(), "json": r.JSON.String()}
	if note != "" {
		d["note"] = note
	}
	if len(c) <= 600 {
		d["bytes"] = Ints(c)
	} else {
		d["bytes_head"] = Ints(c[:64])
	}
	return d
}

// TagName gives a short name for the first byte (used in narrow oracle keys).
func TagName(c []byte) string {
	if len(c) == 0 {
		return "empty"
	}
	return fmt.Sprintf("%02X", c[0])
}

// Oracle evaluates C09 on the implementation: no panic, no hang, validate-ok iff build-ok
// (an error from outside cfg - certificate / key contents - in Build alone is allowed).
// fail(what, key) is called for each violation; keyHint narrows the key.
func (r *Result) Oracle(keyHint string, fail func(what, key string)) {
	chk := func(name string, o Outcome) {
		switch o.Class {
		case 2:
			fail(name+" panicked: "+o.Msg, "panic-"+name+"-"+keyHint)
		case 3:
			fail(name+" did not return within the watchdog", "hang-"+name+"-"+keyHint)
		}
	}
	chk("Validate", r.Validate)
	chk("Build", r.Build)
	chk("Groups", r.Groups)
	for i := range r.GroupOut {
		chk("Group", r.GroupOut[i])
	}
	chk("String", r.Str)
	chk("MarshalJSON", r.JSON)
	if r.Marshal.Class >= 2 && r.Build.Class == 0 {
		chk("MarshalBinary", r.Marshal)
	}
	if r.Validate.Class <= 1 && r.Build.Class <= 1 {
		switch {
		case r.Validate.Class == 0 && r.Build.Class == 1 && (r.Build.Code != 9 || strings.HasPrefix(r.Build.Msg, "aes")):
			// only certificate / key CONTENTS may be rejected by Build alone; AES key and IV sizes are validate's business
			fail("Validate accepts but Build rejects: "+r.Build.Msg, "validate-ok-build-err-"+keyHint)
		case r.Validate.Class == 1 && r.Build.Class == 0:
			fail("Validate rejects ("+r.Validate.Msg+") but Build accepts", "validate-err-build-ok-"+keyHint)
		}
	}
	if r.JSON.Class == 0 && len(r.JSONOut) > 0 && !json.Valid(r.JSONOut) && r.Validate.Class == 0 {
		// not part of C09 (only "returns normally"); counted as a note by the caller if wanted
		_ = 0
	}
}

// ---------------------------------------------------------------- TLS material

// TLSMaterial is a self-signed CA-capable certificate and its key, PEM encoded.
type TLSMaterial struct {
	Cert, Key []byte
	DER       []byte
}

// LoadTLS returns the cached material under dir (generated once with crypto/x509; one file,
// written atomically, so that concurrent checks agree on it).
func LoadTLS(dir string) (*TLSMaterial, error) {
	os.MkdirAll(dir, 0o755)
	fp := filepath.Join(dir, "tls.pem")
	raw, err := os.ReadFile(fp)
	if err != nil {
		priv, err := ecdsa.GenerateKey(elliptic.P256(), rand.Reader)
		if err != nil {
			return nil, err
		}
		t := &x509.Certificate{SerialNumber: big.NewInt(0x5eed), Subject: pkix.Name{CommonName: "verif.local"},
			NotBefore: time.Date(2020, 1, 1, 0, 0, 0, 0, time.UTC), NotAfter: time.Date(2120, 1, 1, 0, 0, 0, 0, time.UTC),
			KeyUsage: x509.KeyUsageDigitalSignature | x509.KeyUsageCertSign, IsCA: true, BasicConstraintsValid: true,
			ExtKeyUsage: []x509.ExtKeyUsage{x509.ExtKeyUsageServerAuth, x509.ExtKeyUsageClientAuth}, DNSNames: []string{"verif.local"}}
		der, err := x509.CreateCertificate(rand.Reader, t, t, &priv.PublicKey, priv)
		if err != nil {
			return nil, err
		}
		kb, err := x509.MarshalECPrivateKey(priv)
		if err != nil {
			return nil, err
		}
		raw = append(pem.EncodeToMemory(&pem.Block{Type: "CERTIFICATE", Bytes: der}), pem.EncodeToMemory(&pem.Block{Type: "EC PRIVATE KEY", Bytes: kb})...)
		tmp := fp + fmt.Sprintf(".%d", os.Getpid())
		if err := os.WriteFile(tmp, raw, 0o600); err != nil {
			return nil, err
		}
		if err := os.Rename(tmp, fp); err != nil {
			return nil, err
		}
		if again, err := os.ReadFile(fp); err == nil {
			raw = again
		}
	}
	cb, rest := pem.Decode(raw)
	if cb == nil || cb.Type != "CERTIFICATE" {
		return nil, errors.New("cached TLS material: no certificate")
	}
	kb, _ := pem.Decode(rest)
	if kb == nil {
		return nil, errors.New("cached TLS material: no key")
	}
	return &TLSMaterial{Cert: pem.EncodeToMemory(cb), Key: pem.EncodeToMemory(kb), DER: cb.Bytes}, nil
}

// RawSetting is a Setting given by its bytes (c2/cfg accepts any type with id/args only from
// inside the package, so raw bytes are appended by the caller instead).
// TLSCertsBytes returns the encoding of ConnectTLSCerts(ver, pem, key) produced by the real
// constructor, or - if the constructor panics (defect repaired by a fix: commit) - the
// documented layout built by hand; the bool reports which.
func TLSCertsBytes(ver uint16, pemB, key []byte) (b []byte, real bool) {
	func() {
		defer func() { recover() }()
		b = cfg.Pack(cfg.ConnectTLSCerts(ver, pemB, key))
		real = true
	}()
	if real {
		return b, true
	}
	p, k := len(pemB), len(key)
	b = []byte{0xB5, byte(ver), byte(p >> 8), byte(p), byte(k >> 8), byte(k)}
	b = append(append(b, pemB...), key...)
	return b, false
}
