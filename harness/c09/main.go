// C09 harness: arbitrary profile bytes through every parsing entry point of c2/cfg
// (Validate, Build, Groups, Group, MarshalBinary, String, MarshalJSON, next) against the
// Gallina model (cases_*.v) and against the property itself (Go-side oracle: no panic, no
// hang, validate-ok iff build-ok up to certificate/key contents).
package main

import (
	"encoding/json"
	"fmt"
	"os"
	"path/filepath"
	"regexp"
	"sort"
	"strconv"
	"strings"
	"time"

	"github.com/iDigitalFlame/xmt/c2/cfg"
	"github.com/iDigitalFlame/xmt/data"

	"verifharness/c09/cfgx"
	"verifharness/vh"
)

var out *vh.Out

// every setting tag of c2/cfg
var tags = []byte{
	0xFA,                                     // separator
	0xA0, 0xA1, 0xA2, 0xA3, 0xA4, 0xA5, 0xA6, // host sleep jitter weight killdate workhours keypin
	0xA7, 0xA8, 0xA9, 0xAA, 0xAB, 0xAC, 0xAD, 0xAE, // selectors (A8/A9: percent)
	0xB0, 0xB1, 0xB2, 0xB3, 0xB4, 0xB5, // ip wc2 tlsx mtls tlsca tlscert
	0xC0, 0xC1, 0xC2, 0xC3, 0xC4, 0xC5, // tcp tls udp icmp pipe tls-insecure
	0xD0, 0xD1, 0xD2, 0xD3, 0xD4, 0xD5, 0xD6, // hex zlib gzip b64 xor cbk aes
	0xE0, 0xE1, 0xE2, // b64T dns b64S
}

func do(c []byte, class, note string) *cfgx.Result { return doX(c, "", class, note) }

// doX: cexpr (optional) is a Coq expression denoting c (big configs are named once per shard
// and their truncations / single-byte changes are written take k base / upd base k v).
var seenInput = map[string]bool{}

// doNew runs an input only if this exact byte string has not been run before (the boundary
// substitutions overlap with the other generators).
func doNew(c []byte, cexpr, class, note string) {
	if seenInput[string(c)] {
		return
	}
	if !sampleAll {
		// the Go-side oracle (cheap) sees every input; the Coq model (what costs) a deterministic
		// hash sample of them: 1/20 in the quick tier, 1/32 of the (ten times more) inputs of the thorough tier
		h := uint32(2166136261)
		for _, b := range c {
			h = (h ^ uint32(b)) * 16777619
		}
		if h%sampleMod != 0 {
			seenInput[string(c)] = true
			r := cfgx.Run(c)
			desc := r.Desc(note)
			r.Oracle(cfgx.TagName(c), func(what, key string) { out.Fail(what, key, desc) })
			out.Count(class+"-oracle-only", string(c), len(c) >= 2)
			return
		}
	}
	doX(c, cexpr, class, note)
}

// sampleAll: every boundary input also becomes a Coq case (not used by the tiers: too slow)
var sampleAll bool

// sampleMod: 1/sampleMod of the boundary inputs are evaluated inside Coq
var sampleMod uint32 = 20

func doX(c []byte, cexpr, class, note string) *cfgx.Result {
	seenInput[string(c)] = true
	r := cfgx.Run(c)
	desc := r.Desc(note)
	out.Add(r.CoqTerm(cexpr), class, len(c) >= 2, desc)
	r.Oracle(cfgx.TagName(c), func(what, key string) { out.Fail(what, key, desc) })
	return r
}

func doNext(c []byte, i int) {
	var n int
	o := cfgx.GuardFast(func() error { n = cfg.VerifNext(cfg.Config(c), i); return nil })
	t := "Panic"
	if o.Class == 0 {
		t = vh.ResOk(vh.Z(int64(n)))
	}
	desc := map[string]interface{}{"fn": "next", "bytes": cfgx.Ints(c), "i": i, "out": o.String(), "n": n}
	out.Add(fmt.Sprintf("CNext %s %s %s", vh.Bytes(c), vh.Z(int64(i)), t), "next", len(c) >= 2, desc)
	if o.Class != 0 && i >= 0 && i < len(c) {
		out.Fail("next panicked at a valid offset: "+o.Msg, "panic-next-"+fmt.Sprintf("%02X", c[i]), desc)
	}
	if o.Class == 0 && n != -1 && n <= i {
		out.Fail("next made no progress", "noprogress-next-"+fmt.Sprintf("%02X", c[i]), desc)
	}
}

type named struct {
	name string
	c    []byte
}

// coqOf: optional Coq expression for a corpus config (huge configs: pat terms instead of a literal)
var coqOf = map[string]string{}

// isMax: corpus configs of maxlen(): in the quick tier the raw-byte stages concentrate on their length fields
var isMax = map[string]bool{}

func capFields(f []int) []int {
	if len(f) <= 12 {
		return f
	}
	return append(append([]int{}, f[:8]...), f[len(f)-4:]...)
}

func patCoq(n, a, b int) string { return fmt.Sprintf("(pat %d %d %d)", n, a&0xFF, b) }

func pat(n, a, b int) []byte {
	o := make([]byte, n)
	for i := range o {
		o[i] = byte(a + i*b)
	}
	return o
}

func cat(bs ...[]byte) []byte {
	var o []byte
	for _, b := range bs {
		o = append(o, b...)
	}
	return o
}

func tlsCerts(ver uint16, pem, key []byte) []byte {
	b, real := cfgx.TLSCertsBytes(ver, pem, key)
	if !real {
		out.Note("ConnectTLSCerts panicked while building the corpus (C08 defect); the documented layout was used instead")
	}
	return b
}

func valid(tls *cfgx.TLSMaterial) []named {
	var pk data.PublicKey
	pk[0], pk[5] = 7, 9
	hdr := map[string]string{"X-A": "1", "Accept": "text/html"}
	l := []named{
		{"basic-tcp", cfg.Pack(cfg.Host("example.com:443"), cfg.Sleep(5*time.Second), cfg.Jitter(15), cfg.ConnectTCP)},
		{"full", cfg.Pack(cfg.Host("a.example:80"), cfg.Host("b.example:81"), cfg.Sleep(time.Minute), cfg.Jitter(30), cfg.Weight(7),
			cfg.KillDate(time.Unix(1893456000, 0)), cfg.WorkHours{Days: 0x3E, StartHour: 9, StartMin: 30, EndHour: 17, EndMin: 45},
			cfg.KeyPin(pk), cfg.SelectorRoundRobin, cfg.ConnectUDP, cfg.WrapHex, cfg.WrapZlib, cfg.WrapXOR([]byte("secret")),
			cfg.WrapCBK(1, 2, 3, 4), cfg.WrapAES(pat(32, 1, 1), pat(16, 9, 3)), cfg.TransformB64Shift(5))},
		{"wc2", cfg.Pack(cfg.Host("h"), cfg.ConnectWC2("/url/%d", "host.example", "Agent/1.0", hdr), cfg.WrapGzip, cfg.WrapBase64, cfg.TransformDNS("a.com", "bb.org", "c.net"))},
		{"wc2-min", cfg.Pack(cfg.ConnectWC2("", "", "", nil), cfg.Host("h"))},
		{"wc2-hdr-last", cfg.Pack(cfg.Host("h"), cfg.ConnectWC2("", "x", "", map[string]string{"k": "v"}))},
		{"ip", cfg.Pack(cfg.ConnectIP(47), cfg.Host("10.0.0.1"), cfg.TransformB64)},
		{"icmp-pipe-groups", func() []byte {
			var c cfg.Config
			c.AddGroup(cfg.Host("one"), cfg.ConnectICMP, cfg.Weight(10), cfg.SelectorRandom)
			c.AddGroup(cfg.Host("two"), cfg.ConnectPipe, cfg.Weight(40))
			c.AddGroup(cfg.Host("three"), cfg.ConnectTLSNoVerify, cfg.Weight(40), cfg.WrapCBKSize(64, 9, 8, 7, 6))
			return c
		}()},
		{"tlsx", cfg.Pack(cfg.Host("h:1"), cfg.ConnectTLSEx(2), cfg.Sleep(1))},
		{"tls-ca", cfg.Pack(cfg.ConnectTLSExCA(3, tls.Cert), cfg.Host("h:1"))},
		{"tls-cert", cat(cfg.Pack(cfg.Host("h:1")), tlsCerts(0, tls.Cert, tls.Key), cfg.Pack(cfg.Jitter(0)))},
		{"mtls", cfg.Pack(cfg.Host("h:1"), cfg.ConnectMuTLS(1, tls.Cert, tls.Cert, tls.Key), cfg.WrapHex)},
		{"mtls-groups", func() []byte {
			var c cfg.Config
			c.AddGroup(cfg.Host("h:1"), cfg.ConnectMuTLS(1, tls.Cert, tls.Cert, tls.Key))
			c.AddGroup(cfg.Host("h:2"), cfg.ConnectTLSExCA(0, tls.Cert), cfg.SelectorSemiRandom)
			return c
		}()},
		{"wc2-1hdr", cfg.Pack(cfg.ConnectWC2("/a", "", "", map[string]string{"k": "v"}))},
		{"wc2-3hdr", cfg.Pack(cfg.Host("h"), cfg.ConnectWC2("/a", "x", "", map[string]string{"a": "1", "bb": "", "ccc": "333"}), cfg.Jitter(2))},
		{"wc2-emptyname", cfg.Pack(cfg.ConnectWC2("/a", "", "", map[string]string{"": "v"}))},
		{"wc2-emptyname-mid", cfg.Pack(cfg.Host("h"), cfg.ConnectWC2("", "", "a", map[string]string{"": "v"}), cfg.WrapHex)},
		{"wc2-empty-both", cfg.Pack(cfg.ConnectWC2("/a", "", "", map[string]string{"": ""}), cfg.Host("h"))},
		{"wc2-emptyname-2", cfg.Pack(cfg.Host("h"), cfg.ConnectWC2("/", "", "", map[string]string{"": "v", "k": "w"}))},
		{"dns-emptyname", cfg.Pack(cfg.Host("h"), cfg.TransformDNS("a.b", "", "c.d"))},
		{"dns-only-empty", cfg.Pack(cfg.TransformDNS(""), cfg.Host("h"))},
		{"xor-empty", cfg.Pack(cfg.Host("h"), cfg.WrapXOR(nil), cfg.ConnectTCP)},
		{"dns-late", cfg.Pack(cfg.Sleep(time.Second), cfg.Host("h"), cfg.TransformDNS("a.com", "b.com"))},
		{"host-300", cfg.Pack(cfg.Jitter(3), cfg.Host(string(pat(300, 'a', 0))), cfg.ConnectTCP)},
		{"xor-300", cfg.Pack(cfg.Jitter(3), cfg.Weight(3), cfg.WrapXOR(pat(300, 1, 1)), cfg.ConnectTCP, cfg.Host("h"))},
	}
	return l
}

// maxlen: every length-prefixed field of every setting at the ends of its range - one-byte lengths (DNS names, WC2
// header names / values, the DNS and header COUNT bytes) at {0,1,254,255}, two-byte lengths (host, xor key, WC2
// url / host / agent, CA / certificate / key blobs) at {0,1,255,256,65534,65535} - as produced by the constructors;
// the raw-byte stages (truncation, length-field change, boundary substitution, splices) then work on them.
func maxlen(thorough bool) []named {
	s := func(n, a int) string { return string(pat(n, a, 1)) }
	names255 := make([]string, 255)
	for i := range names255 {
		names255[i] = "d"
	}
	hdr255 := map[string]string{}
	for i := 0; i < 255; i++ {
		hdr255[fmt.Sprintf("K%03d", i)] = "v"
	}
	l := []named{
		{"dns-255-254-1", cfg.Pack(cfg.Host("h"), cfg.TransformDNS(s(255, 'a'), "a.b", s(254, 'b'), "c"), cfg.ConnectTCP)},
		{"dns-255-last", cfg.Pack(cfg.ConnectUDP, cfg.TransformDNS(s(255, 'a')))},
		{"dns-255-names", cfg.Pack(cfg.Host("h"), cfg.TransformDNS(names255...), cfg.Jitter(1))},
		{"dns-0-names", cfg.Pack(cfg.Host("h"), cfg.TransformDNS())},
		{"wc2-hdr-255", cfg.Pack(cfg.Host("h"), cfg.ConnectWC2("/u", "", "a", map[string]string{s(255, 'K'): s(255, 'V')}), cfg.WrapHex)},
		{"wc2-hdr-254-0", cfg.Pack(cfg.ConnectWC2("", "hh", "", map[string]string{s(254, 'K'): ""}), cfg.Host("h"))},
		{"wc2-hdr-1-254", cfg.Pack(cfg.ConnectWC2("/", "", "", map[string]string{"k": s(254, 'V')}))},
		{"wc2-255-headers", cfg.Pack(cfg.Jitter(2), cfg.ConnectWC2("/", "h", "a", hdr255), cfg.Host("h"))},
		{"wc2-url-255-256-1", cfg.Pack(cfg.ConnectWC2(s(255, 'u'), s(256, 'h'), "a", nil), cfg.Host("h"))},
		{"wc2-agent-256", cfg.Pack(cfg.Host("h"), cfg.ConnectWC2("", "", s(256, 'a'), map[string]string{"k": "v"}))},
		{"host-255-256-1", cfg.Pack(cfg.Host(s(255, 'h')), cfg.Host(s(256, 'i')), cfg.Host("j"), cfg.ConnectTCP)},
		{"xor-255-256-1", cfg.Pack(cfg.WrapXOR(pat(255, 1, 1)), cfg.WrapXOR(pat(256, 2, 1)), cfg.WrapXOR([]byte{9}), cfg.Host("h"))},
		{"tlsca-255", cfg.Pack(cfg.Host("h"), cfg.ConnectTLSExCA(1, pat(255, 'c', 1)), cfg.Jitter(1))},
		{"tlsca-256-last", cfg.Pack(cfg.Host("h"), cfg.ConnectTLSExCA(1, pat(256, 'c', 1)))},
		{"tlsca-1", cfg.Pack(cfg.ConnectTLSExCA(1, []byte{'x'}), cfg.Host("h"))},
		{"tlscerts-255-256", cat(cfg.Pack(cfg.Host("h")), tlsCerts(2, pat(255, 'p', 1), pat(256, 'k', 1)), cfg.Pack(cfg.WrapHex))},
		{"tlscerts-1-0", cat(cfg.Pack(cfg.Host("h")), tlsCerts(2, []byte{'p'}, nil))},
		{"mtls-255-256-1", cfg.Pack(cfg.Host("h"), cfg.ConnectMuTLS(3, pat(255, 'c', 1), pat(256, 'p', 1), []byte{'k'}), cfg.Jitter(1))},
		{"mtls-0-1-255", cfg.Pack(cfg.ConnectMuTLS(3, nil, []byte{'p'}, pat(255, 'k', 1)))},
	}
	huge := func(name string, pre []byte, hdr byte, n int, a int, post []byte) {
		c := cat(pre, []byte{hdr, byte(n >> 8), byte(n)}, pat(n, a, 1), post)
		coqOf[name] = fmt.Sprintf("(%s ++ %s ++ %s)", vh.Bytes(cat(pre, []byte{hdr, byte(n >> 8), byte(n)})), patCoq(n, a, 1), vh.Bytes(post))
		l = append(l, named{name, c})
	}
	huge("host-65535", []byte{0xA2, 3}, 0xA0, 65535, 'h', []byte{0xC0})
	if thorough {
		huge("xor-65534-last", []byte{0xC0, 0xA0, 0, 1, 'h'}, 0xD4, 65534, 7, nil)
		huge("host-65534", nil, 0xA0, 65534, 'h', []byte{0xC2, 0xA2, 1})
		huge("xor-65535", []byte{0xA2, 3}, 0xD4, 65535, 7, []byte{0xC0, 0xA0, 0, 1, 'h'})
	}
	return l
}

// regression inputs: one per defect found on the pinned tree (all repaired by fix: commits)
func regressions() []named {
	return []named{
		{"selector-percent", []byte{0xA8, 5}},
		{"truncated-host", []byte{0xA0, 0, 6, 0x61, 0x62, 0x63, 0x64, 0x65}},
		{"wc2-header-walk", []byte{0xB1, 0, 0, 0, 0, 0, 0, 1, 5}},
		{"truncated-host-mid", []byte{0xA0, 0, 4, 0x61, 0x62, 0x63, 0xFA, 0xC0}},
		{"truncated-xor", []byte{0xD4, 0, 6, 1, 2, 3, 4, 5}},
		{"truncated-xor-2", []byte{0xC0, 0xD4, 0, 3, 1, 2}},
		{"wc2-header-walk-2", []byte{0xA2, 1, 0xB1, 0, 1, 0, 0, 0, 0, 2, 0x2F, 1, 1, 0x61, 0x62, 3}},
		{"selector-percent-rr", []byte{0xC0, 0xA9, 50, 0xA0, 0, 1, 0x68}},
		{"dns-after-offset", []byte{0xA2, 5, 0xE1, 1, 5, 0x61, 0x2E, 0x63, 0x6F, 0x6D}},
		{"tlsca-empty", []byte{0xB4, 0, 0, 0}},
		{"host-carry", append([]byte{0xA1, 0, 0, 0, 0, 0x3B, 0x9A, 0xCA, 0, 0xA2, 1, 0xA0, 1, 0xFF}, pat(511, 'a', 0)...)},
	}
}

// offsets of the length / count bytes of the settings of a well-formed config
func lengthFields(c []byte) []int {
	var f []int
	k := cfg.Config(c)
	for i := 0; i >= 0 && i < len(c); {
		n := -1
		func() {
			defer func() { recover() }()
			n = cfg.VerifNext(k, i)
		}()
		if n <= i || n > len(c) {
			n = len(c)
		}
		add := func(o ...int) {
			for _, x := range o {
				if i+x < n {
					f = append(f, i+x)
				}
			}
		}
		switch c[i] {
		case 0xA0, 0xD4, 0xD6:
			add(1, 2)
		case 0xB1:
			add(1, 2, 3, 4, 5, 6, 7)
			if i+7 < n {
				v := i + 8 + (int(c[i+1])<<8 | int(c[i+2])) + (int(c[i+3])<<8 | int(c[i+4])) + (int(c[i+5])<<8 | int(c[i+6]))
				for v+1 < n {
					f = append(f, v, v+1)
					v += int(c[v]) + int(c[v+1]) + 2
				}
			}
		case 0xB3:
			add(2, 3, 4, 5, 6, 7)
		case 0xB4:
			add(2, 3)
		case 0xB5:
			add(2, 3, 4, 5)
		case 0xE1:
			add(1)
			for v := i + 2; v < n; v += int(c[v]) + 1 {
				f = append(f, v)
			}
		default:
			add(1) // the first argument byte of fixed-size settings (ip protocol, work hours ...)
		}
		f = append(f, i) // the tag itself
		i = n
	}
	return f
}

// boundaryValues derives, from the text of coq/Model/Cfg.v (sections Config.next .. MarshalJSON skeleton), every
// integer literal that the model compares something with (<?, <=?, =?), adds +-1 around each and the
// generic byte boundaries, and keeps what fits in a byte.  The list follows future edits of the model.
func boundaryValues(root string) ([]byte, string) {
	set := map[int]bool{}
	for _, v := range []int{0, 1, 2, 127, 128, 254, 255} {
		set[v] = true
	}
	src := "generic byte boundaries only (model file not readable)"
	if raw, err := os.ReadFile(filepath.Join(root, "coq", "Model", "Cfg.v")); err == nil {
		t := string(raw)
		a, b := strings.Index(t, "(* ---- Config.next"), strings.Index(t, "(* ---- observables")
		if a >= 0 && b > a {
			t = t[a:b]
			n := 0
			for _, re := range []*regexp.Regexp{
				regexp.MustCompile(`(-?\d+)\s*(?:<\?|<=\?|=\?)`),
				regexp.MustCompile(`(?:<\?|<=\?|=\?)\s*(-?\d+)\b`),
			} {
				for _, m := range re.FindAllStringSubmatch(t, -1) {
					if v, err := strconv.Atoi(m[1]); err == nil {
						for d := -1; d <= 1; d++ {
							set[v+d] = true
						}
						n++
					}
				}
			}
			src = fmt.Sprintf("%d comparison literals of coq/Model/Cfg.v (+-1) and the generic byte boundaries", n)
		}
	}
	var o []byte
	for v := range set {
		if v >= 0 && v <= 255 {
			o = append(o, byte(v))
		}
	}
	sort.Slice(o, func(i, j int) bool { return o[i] < o[j] })
	return o, src
}

// fixed-width settings: tag and number of argument bytes
var fixedWidth = []struct {
	tag byte
	w   int
}{{0xA1, 8}, {0xA2, 1}, {0xA3, 1}, {0xA4, 8}, {0xA5, 5}, {0xA6, 4}, {0xA8, 1}, {0xA9, 1}, {0xB0, 1}, {0xB2, 1}, {0xD5, 5}, {0xE2, 1}}

// fixedBoundary: short strings (tag alphabet) x (boundary values) for the fixed-width settings: every
// single argument byte over every boundary value (other bytes from three baselines), every PAIR of
// argument bytes over the boundary values for the settings that compare more than one byte (work hours),
// each alone, after a connector and before another setting; selectors next to them.
func fixedBoundary(bv []byte, thorough bool) {
	wrapIt := func(core []byte, class string) {
		doNew(core, "", class, "")
		doNew(cat([]byte{0xC0}, core), "", class, "")
		doNew(cat([]byte{0xAB}, core, []byte{0xA2, 10}), "", class, "")
	}
	for _, f := range fixedWidth {
		bases := [][]byte{make([]byte, f.w), pat(f.w, 0xFF, 0), pat(f.w, 9, 7)}
		if f.tag == 0xA5 {
			bases = [][]byte{{0x3E, 9, 30, 17, 45}, {0, 0, 0, 0, 0}, {0xFF, 23, 59, 23, 59}}
		}
		for _, base := range bases {
			for k := 0; k < f.w; k++ {
				for _, v := range bv {
					m := cat([]byte{f.tag}, base)
					m[1+k] = v
					wrapIt(m, "fixed-boundary")
				}
			}
		}
		if f.tag == 0xA5 || thorough {
			small := []byte{0, 1, 23, 24, 59, 60, 61, 255}
			if thorough {
				small = bv
			}
			base := bases[0]
			for k := 0; k < f.w; k++ {
				for l := k + 1; l < f.w; l++ {
					for _, v := range small {
						for _, u := range small {
							m := cat([]byte{f.tag}, base)
							m[1+k], m[1+l] = v, u
							doNew(m, "", "fixed-boundary-pair", "")
						}
					}
				}
			}
		}
	}
}

func main() {
	fl := vh.ParseFlags()
	out = vh.NewOut("C09", fl, "From XMT Require Import Base.Prelude Model.Cfg.", "case", "check",
		"byte strings through Validate/Build/Groups/Group/MarshalBinary/String/MarshalJSON/next: exhaustive strings of length <= 2 (quick: a sample of length 3, thorough: all) over the 38 setting tags + {0,1,2,5,255}, "+
			"valid configs from every constructor, every truncation and every change of each length/count/tag byte of those, random splices, random tag-alphabet strings; "+
			"distinct = distinct Coq case term, non-trivial = at least two bytes (a tag and something interpreted relative to it)")
	out.ShardSize = 400
	rng := vh.NewRand(fl.Seed)
	thorough := fl.Tier == "thorough"
	if thorough {
		sampleMod = 32
	}
	tls, err := cfgx.LoadTLS(filepath.Join(filepath.Dir(fl.Out), "cfg_tls"))
	if err != nil {
		panic(err)
	}

	// valid configs; the big ones are named once in the preamble of every shard
	vs := valid(tls)
	for _, m := range maxlen(thorough) {
		isMax[m.name] = true
		vs = append(vs, m)
	}
	names := make([]string, len(vs))
	pre := out.Imports
	for k, v := range vs {
		if len(v.c) > 100 {
			names[k] = fmt.Sprintf("base_%d", k)
			def := vh.Bytes(v.c)
			if x := coqOf[v.name]; x != "" {
				def = x
			}
			pre += fmt.Sprintf("\nDefinition %s : list Z := %s.", names[k], def)
		}
	}
	out.Imports = pre
	expr := func(k int, f string, a ...interface{}) string {
		if names[k] == "" {
			return ""
		}
		return fmt.Sprintf(f, a...)
	}

	if fl.Replay != "" {
		// re-run one recorded input (replays/*.json or seeded/*/replay.json: input.bytes)
		var rp struct {
			Input struct {
				Bytes []int `json:"bytes"`
			} `json:"input"`
		}
		raw, err := os.ReadFile(fl.Replay)
		if err != nil {
			panic(err)
		}
		if err := json.Unmarshal(raw, &rp); err != nil {
			panic(err)
		}
		c := make([]byte, len(rp.Input.Bytes))
		for i, x := range rp.Input.Bytes {
			c[i] = byte(x)
		}
		do(c, "replay", filepath.Base(fl.Replay))
		out.Finish()
		return
	}
	// 1. regression corpus
	for _, r := range regressions() {
		do(r.c, "regression", r.name)
	}
	do(nil, "regression", "empty")
	// 2. valid configs
	for k, v := range vs {
		r := doX(v.c, names[k], "valid", v.name)
		if r.Validate.Class != 0 || r.Build.Class != 0 {
			out.Note("corpus config " + v.name + " does not validate/build: " + r.Validate.String() + " / " + r.Build.String())
		}
		if len(v.c) < 100 {
			for i := -1; i <= len(v.c)+1; i++ {
				if thorough || i < 3 || i%3 == 0 || i >= len(v.c)-1 {
					doNext(v.c, i)
				}
			}
		}
	}
	// 2b. boundary values of every comparison constant of the model, substituted at EVERY byte position of
	// the valid configs (big configs: the first 80 and last 24 positions in quick), and the fixed-width settings
	bv, bsrc := boundaryValues(filepath.Dir(filepath.Dir(fl.Out)))
	out.Extra("boundary_values", cfgx.Ints(bv))
	out.Extra("boundary_source", bsrc)
	for vk, v := range vs {
		c := v.c
		only := map[int]bool{}
		if isMax[v.name] && !thorough {
			for _, o := range capFields(lengthFields(c)) {
				only[o] = true
			}
		}
		for o := 0; o < len(c); o++ {
			if len(only) > 0 && !only[o] {
				continue
			}
			if len(c) > 100 && !thorough && o >= 80 && o < len(c)-24 && !only[o] {
				continue
			}
			if len(c) > 5000 && o >= 8 && o < len(c)-2 && !only[o] {
				continue
			}
			for _, b := range bv {
				if b == c[o] {
					continue
				}
				m := append([]byte(nil), c...)
				m[o] = b
				doNew(m, expr(vk, "(upd %s %d %d)", names[vk], o, b), "boundary-substitution", fmt.Sprintf("%s@%d=%d", v.name, o, b))
			}
		}
	}
	fixedBoundary(bv, thorough)
	// 2c. AES settings with EVERY key length 0..40 (48, 56, 64) and IV lengths around 16, from the constructor, in
	// several placements (validate checks 16/24/32 and 16 itself, build leaves it to crypto/aes and NewBlock)
	{
		type kv struct{ k, iv int }
		var sizes []kv
		for k := 0; k <= 40; k++ {
			sizes = append(sizes, kv{k, 16})
		}
		for _, k := range []int{48, 56, 64} {
			sizes = append(sizes, kv{k, 16})
		}
		for _, k := range []int{8, 16, 24, 32} {
			for _, iv := range []int{0, 1, 8, 15, 17, 24, 32} {
				sizes = append(sizes, kv{k, iv})
			}
		}
		for _, z := range sizes {
			a := cfg.Pack(cfg.WrapAES(pat(z.k, 3, 5), pat(z.iv, 9, 1)))
			if z.iv == 0 && z.k > 0 {
				copy(a[3+z.k:], pat(16, 9, 1)) // the generated IV: make the input deterministic
			}
			h, t := cfg.Pack(cfg.Host("h:1")), []byte{0xC0}
			for _, m := range [][]byte{a, cat(a, h, t), cat(h, a, t), cat(h, t, a), cat(h, t, []byte{0xFA, 0xA2, 7}, a, []byte{0xC2}), cat(h, a, []byte{0xFA}, h, t, []byte{0xFA}, a)} {
				doX(m, "", "aes-sizes", fmt.Sprintf("aes key %d iv %d", z.k, z.iv))
			}
		}
	}
	// 3. exhaustive short strings
	alpha := append(append([]byte{}, tags...), 0, 1, 2, 5, 255)
	for _, a := range alpha {
		do([]byte{a}, "exhaustive-len1", "")
		doNext([]byte{a}, 0)
		for _, b := range alpha {
			do([]byte{a, b}, "exhaustive-len2", "")
			if thorough || rng.Intn(8) == 0 {
				doNext([]byte{a, b}, 0)
				doNext([]byte{a, b}, 1)
			}
			for _, c := range alpha {
				if thorough || rng.Intn(60) == 0 {
					do([]byte{a, b, c}, "exhaustive-len3", "")
				}
			}
		}
	}
	// 4. truncations and length-field changes of the valid corpus
	for vk, v := range vs {
		c := v.c
		for k := 0; k < len(c); k++ {
			if len(c) > 100 && !thorough && k > 60 && k < len(c)-16 && k%97 != 0 {
				continue
			}
			if isMax[v.name] && k > 12 && k < len(c)-6 && (!thorough || (k > 60 && k%7 != 0)) {
				continue
			}
			if len(c) > 5000 && k > 4 && k < len(c)-2 && (!thorough || k%9973 != 0) {
				continue
			}
			doX(append([]byte(nil), c[:k]...), expr(vk, "(take %d %s)", k, names[vk]), "truncation", v.name)
		}
		lf := lengthFields(c)
		if isMax[v.name] && !thorough {
			lf = capFields(lf)
		}
		for _, o := range lf {
			vals := []int{0, 1, 2, int(c[o]) - 1, int(c[o]) + 1, 0x7F, 0x80, 0xFF}
			if !thorough && len(lf) > 30 {
				vals = []int{0, int(c[o]) - 1, int(c[o]) + 1, 0xFF}
			}
			if !thorough && isMax[v.name] {
				vals = []int{0, int(c[o]) + 1, 0xFF}
			}
			seen := map[byte]bool{c[o]: true}
			for _, x := range vals {
				b := byte(x)
				if seen[b] {
					continue
				}
				seen[b] = true
				m := append([]byte(nil), c...)
				m[o] = b
				doX(m, expr(vk, "(upd %s %d %d)", names[vk], o, b), "lenfield-change", fmt.Sprintf("%s@%d=%d", v.name, o, b))
			}
		}
	}
	// 5. random splices of valid configs and regression inputs
	pool := append(append([]named{}, vs...), regressions()...)
	ns := 500
	if thorough {
		ns = 30000
	}
	for i := 0; i < ns; i++ {
		a, b := pool[rng.Intn(len(pool))].c, pool[rng.Intn(len(pool))].c
		if len(a) > 100 {
			a = a[:rng.Intn(40)+1]
		}
		if len(b) > 100 {
			k := rng.Intn(len(b))
			b = b[k:]
			if len(b) > 60 {
				b = b[:60]
			}
		}
		x, y := rng.Intn(len(a)+1), rng.Intn(len(b)+1)
		var m []byte
		m = append(m, a[:x]...)
		switch rng.Intn(4) {
		case 0:
			m = append(m, 0xFA)
		case 1:
			m = append(m, rng.Bytes(rng.Intn(4))...)
		}
		m = append(m, b[y:]...)
		if rng.Intn(3) == 0 && len(m) > 0 {
			m[rng.Intn(len(m))] = byte(rng.U64())
		}
		do(m, "splice", "")
	}
	// 6. random strings over the tag alphabet with small arguments
	nr := 900
	if thorough {
		nr = 50000
	}
	for i := 0; i < nr; i++ {
		n := 4 + rng.Intn(36)
		m := make([]byte, n)
		for j := range m {
			switch rng.Intn(5) {
			case 0, 1:
				m[j] = tags[rng.Intn(len(tags))]
			case 2:
				m[j] = byte(rng.Intn(4))
			case 3:
				m[j] = byte(rng.Intn(20))
			default:
				m[j] = byte(rng.U64())
			}
		}
		do(m, "random-alphabet", "")
		if i%10 == 0 {
			doNext(m, rng.Intn(n))
		}
	}
	out.Finish()
}
